#!/bin/bash
# seed_check.sh <seed-id> <property> [tier]: apply a seeded change to /repo, run the check, undo.
id="$1"; prop="$2"; tier="${3:-quick}"
cd /repo || exit 2
if [ -n "$(git status --porcelain --untracked-files=no)" ]; then echo "repo dirty"; exit 2; fi
git apply /verif/seeded/$id/patch.diff || { echo "patch does not apply"; exit 2; }
cd /verif && ./check $prop $tier > /tmp/seedcheck_$id.log 2>&1; rc=$?
git -C /repo checkout -- .
echo "seed $id property $prop tier $tier: exit=$rc"; grep -c "^VIOLATION" /tmp/seedcheck_$id.log; grep "^VIOLATION\|^INCONCLUSIVE\|^ENGINE" /tmp/seedcheck_$id.log | head -4 | cut -c1-300
