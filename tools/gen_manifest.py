#!/usr/bin/env python3
# Regenerates /verif/MANIFEST.json from the table below (one place to edit).
import json
T="symbolic execution of go/ssa built from /repo's working tree + SMT (z3 / cvc5 bv-as-int / z3-new); counterexamples replayed against the native build"
NOTE="solver unsat answers trusted; bounds, stubs and assumptions are listed per harness in the evidence file; counterexamples are replayed natively before being reported (except harnesses that need contract stubs, marked replay=no)"
C={
"C01":"bounded symbolic execution of the log round trip's byte-level codecs: block timestamps (writer encodeTimestamps vs reader convertRawRecordsToTimestamps), block summaries with column offset tables, the chunked column buffer across the 16 KiB boundary, the dictionary block (checkAddDictEnc/PackDictEnc vs ReadDictEnc) and the column-alignment step (doLogEventFilling for 2-3 events x 2 columns walked back with the reader's own record-length logic); JSON tokenizer, zstd and files outside the claim",
"C02":"bounded symbolic execution of the real search-filter comparison (ApplySearchToExpressionFilterSimpleCsg..compareNumberDte) for all numeric values within 2^53 and six operators, string equality, time-range functions, the AND/OR/NOT combination of per-record match sets (executeRawSearchOnNode..updateMatchedRecords over eight node shapes) and JoinRequest's block/column union; wildcard/regex/where-evaluator outside the claim",
"C03":"soundness of skipping and of acceleration paths: a matching value keeps its block in the range micro-index (CheckRangeIndex/updateRangeIndex), time pruning never drops a block holding an in-range record, the dictionary path selects exactly the records the per-record check selects, and the ingest-time pre-aggregated statistics equal the raw aggregate",
"C04":"bounded symbolic execution of the real time-bucket function over all 64-bit ranges/steps (cvc5 bv-as-int for the division kernel) of the merge of segments' pre-aggregated statistics (count/sum/avg/min/max/range/latest/earliest, several measures over one column) and of group-by accumulation and result extraction over 1-3 events",
"C05":"bounded symbolic execution of the sort comparator (consistent with the numeric order, antisymmetric, transitive), head-based paging over real IQRs, the segment scheduling rounds, and the multi-stream merge with a limit (DataProcessor.getStreamInput: exactly the first N rows of the merged order for every distribution over streams and batches)",
"C06":"bounded symbolic execution of head/tail/dedup over real IQRs with a free partition of T<=4 rows into batches, of bin's first pass (min/max of the whole stream for any batching, all finite floats) and of a two-pass read through the merge (Rewind then the same rows again)",
"C07":"crash point as a free variable on a file model: WriteSfm rewrite and ChecksumFile partial-chunk append stopped before any file-system operation (writes possibly torn) leave the old or the new document / every earlier chunk intact; the startup scan registers exactly the segment directories holding a complete .sfm, whatever mixture of states a crashed history left (narrow claim, see DESIGN.md)",
"C08":"bounded symbolic execution of the real Gorilla codec: value and timestamp halves of one step from an arbitrary valid codec state, bit I/O at every alignment, 2-3 point streams through the public entry points over all 2^64 value bit patterns; series identity (TSID) and TSO lookup for small tag sets",
"C09":"bounded symbolic execution of Series.AddEntry/Merge/Downsample/AggregateFromSingleTimeseries (bucket values equal sum/min/max/avg of their points for any split into merged series) and of the regex label-matcher predicate with Go's regexp interpreted from source (whole-value match)",
"C10":"bounded symbolic execution of Wal.Append / DPWalIterator.Next on a file model: a log cut at every byte yields exactly the complete blocks, one altered byte never yields an altered datapoint; appendToWALBuffer with rotation and a crash before any file-system operation followed by RecoverWALData replays exactly the appended batches",
"C12":"bounded symbolic execution of quickSelect/FindPercentileData (N<=4/6 durations) BuildSpanTree (3 spans, all parent shapes incl. cycles and missing parents) and the scroll stage used to page through a trace's spans",
"C13":"bounded symbolic execution of FilterSegmentsByTime / FilterUnrotatedSegmentsInQuery over 2-3 segments (returned iff index named, organisation is the requester's, range overlaps), of index-expression expansion with Go's regexp interpreted from source, and of alias add/remove histories (an alias resolves to the last written indexes of its tenant)",
"C14":"bounded symbolic execution of DoRetentionBasedDeletion (victims are exactly the requester's expired segments; idempotent), of the in-memory removal (a deleted segment is in no list, survivors listed once, ties included) and of the metrics meta rewrite over the file model (survivors keep directory, entry and shared tags tree)",
"C15":"bounded symbolic execution of HandleBulkBody over bodies of 1-3(4) actions with free action/index/size/parse/store outcomes: one item per action, created iff handed to the store and stored, errors flag iff some item failed",
"C16":"symbolic execution of ExtractTimeStamp/ConvertTimestampToMillis over every integer timestamp in the seconds, millisecond and nanosecond bands in number, decimal-point-number and string forms, of the handler-set event time through ProcessIndexRequestPle, of the OTLP log record mapping (time, trace/span id, attributes) and of the Splunk HEC event time on concrete values (time and identifier half of C16; HTTP/JSON/protobuf decoding outside the claim)",
"C18":"bounded symbolic execution of ChecksumFile append/read under one altered byte or truncation at any position, of the block-summary, TSO/TSG, timestamp-block and Gorilla decoders on arbitrary bytes, and of the column-file and timestamp-file readers over damaged two-block files in any load order: original values or an error, never a panic or another block's data",
"C19":"bounded symbolic execution of the lookup-file handlers and the inputlookup command with a free client-supplied name of up to 7 bytes against a path monitor: every path handed to the os package stays under the data directory",
"C20":"bounded symbolic execution of handleAlertCondition/NotifyAlertHandlerRequest over all outcome histories of length 4/5 against an in-memory database and a symbolic clock, and of the index-alias keyed store (add/remove histories, restart) over the file model; other saved objects outside the claim",
}
import sys
extra=json.load(open('/verif/tools/manifest_extra.json')) if __import__('os').path.exists('/verif/tools/manifest_extra.json') else {}
C.update(extra)
checks=[]
for pid in sorted(C):
    checks.append({"property_id":pid,"quick_cmd":"./check %s quick"%pid,"thorough_cmd":"./check %s thorough"%pid,"evidence_file":"/verif/evidence/%s.json"%pid,
     "replay_cmd_template":"./check %s --replay {path}"%pid,"engine":"gosym",
     "level_claimed":{"category":"model_checking","text":C[pid],"design_ref":"DESIGN.md §3 "+pid},
     "level_note":NOTE,"technique":T})
m={"version":1,
 "setup_cmd":"cd /verif/engine && GOFLAGS=-mod=mod GOPROXY=off GOSUMDB=off GOTOOLCHAIN=local go build -o /verif/bin/gosym ./cmd/gosym",
 "hooks":{"guard":"verif","enable":"harnesses (//go:build verif) and the zzverif runtime are injected with a go build overlay (-overlay / packages.Config.Overlay); nothing is written into /repo","baseline_off_cmd":"cd /repo && GOFLAGS=-mod=mod go test -vet=off -count=1 -timeout 25m ./...","source_commits":[],"add_only":True},
 "engines":[{"name":"gosym","path":"/verif/engine","serves_properties":sorted(C),"kind_free_text":"symbolic interpreter over go/ssa (x/tools v0.29.0) of /repo's working tree, DART-style path exploration by re-execution, function summaries, if-conversion, slice normal form; SMT-LIB2 to long-lived z3 4.8.12 / cvc5 1.0 (bv-as-int) / z3 5.1.0 processes; counterexamples replayed against the native build"}],
 "checks":checks,
 "not_applicable":[
  {"property_id":"C11","reason":"quantifies over goroutine schedules and lock interleavings; the encoder is a sequential SSA interpreter and no encoding of Go's scheduler/memory model is within reach (DESIGN.md §4)"},
  {"property_id":"C17","reason":"24k-line generated PEG parsers over symbolic bytes explode beyond any useful bound; the query life-cycle half is goroutines, channels and timers (DESIGN.md §4)"}],
 "notes":"what each check covers, its bounds and what lies outside them: DESIGN.md section 7 and the evidence files. Genuine defects found by the checks and repaired in /repo are listed as 'fixed' in known_findings.json."}
NA=json.load(open('/verif/tools/manifest_na.json')) if __import__('os').path.exists('/verif/tools/manifest_na.json') else []
m["not_applicable"]+=NA
json.dump(m,open('/verif/MANIFEST.json','w'),indent=1)
print(sorted(C))
