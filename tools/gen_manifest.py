#!/usr/bin/env python3
# Regenerates /verif/MANIFEST.json from the table below (one place to edit).
import json
T="symbolic execution of go/ssa built from /repo's working tree + SMT (z3 / cvc5 bv-as-int / z3-new); counterexamples replayed against the native build"
NOTE="solver unsat answers trusted; bounds, stubs and assumptions are listed per harness in the evidence file; counterexamples are replayed natively before being reported (except harnesses that need contract stubs, marked replay=no)"
C={
"C02":"bounded symbolic execution of the real search-filter comparison (ApplySearchToExpressionFilterSimpleCsg..compareNumberDte), string equality and time-range functions; each assertion discharged by SMT for all values within the stated bounds (numeric core of C02; wildcard/regex/where-evaluator outside the claim)",
"C03":"soundness of skipping: for every value inside a range micro-index bracket and every literal/operator, a matching value implies the block is kept (CheckRangeIndex), the index update brackets every value across type changes (updateRangeIndex), and time pruning never drops a block holding an in-range record",
"C04":"bounded symbolic execution of the real time-bucket function over all 64-bit ranges/steps (cvc5 bv-as-int for the division kernel)",
"C08":"bounded symbolic execution of the real Gorilla codec: value and timestamp halves of one step from an arbitrary valid codec state, bit I/O at every alignment, and 2-3 point streams through the public entry points, all 2^64 value bit patterns",
"C10":"bounded symbolic execution of Wal.Append / DPWalIterator.Next on a file model: log cut at every byte yields exactly the complete blocks; one altered byte at any position never yields an altered datapoint",
"C12":"bounded symbolic execution of quickSelect/FindPercentileData (N<=4/6 durations) and BuildSpanTree (3 spans, all parent shapes incl. cycles and missing parents)",
"C16":"symbolic execution of ExtractTimeStamp/ConvertTimestampToMillis over every integer timestamp in the seconds, millisecond and nanosecond bands in number, decimal-point-number and string forms (time half of C16 only)",
"C18":"bounded symbolic execution of ChecksumFile append/read under one altered byte or truncation at any position, and of the block-summary decoders on arbitrary files up to 40 bytes: original bytes or an error, never a panic",
"C20":"bounded symbolic execution of handleAlertCondition/NotifyAlertHandlerRequest over all outcome histories of length 4/5 against an in-memory database and a symbolic clock (first sentence of C20 only)",
}
import sys
extra=json.load(open('/verif/tools/manifest_extra.json')) if __import__('os').path.exists('/verif/tools/manifest_extra.json') else {}
C.update(extra)
checks=[]
for pid in sorted(C):
    checks.append({"property_id":pid,"quick_cmd":"./check %s quick"%pid,"thorough_cmd":"./check %s thorough"%pid,"evidence_file":"/verif/evidence/%s.json"%pid,
     "replay_cmd_template":"./check %s --replay {path}"%pid,"engine":"gosym",
     "level_claimed":{"category":"model_checking","text":C[pid],"design_ref":"DESIGN.md §3 "+pid},
     "level_note":NOTE,"technique":T})
m={"version":1,
 "setup_cmd":"cd /verif/engine && GOFLAGS=-mod=mod GOPROXY=off GOSUMDB=off GOTOOLCHAIN=local go build -o /verif/bin/gosym ./cmd/gosym",
 "hooks":{"guard":"verif","enable":"harnesses (//go:build verif) and the zzverif runtime are injected with a go build overlay (-overlay / packages.Config.Overlay); nothing is written into /repo","baseline_off_cmd":"cd /repo && GOFLAGS=-mod=mod go test -vet=off -count=1 -timeout 25m ./...","source_commits":[],"add_only":True},
 "engines":[{"name":"gosym","path":"/verif/engine","serves_properties":sorted(C),"kind_free_text":"symbolic interpreter over go/ssa (x/tools v0.29.0) of /repo's working tree, DART-style path exploration by re-execution, function summaries, if-conversion, slice normal form; SMT-LIB2 to long-lived z3 4.8.12 / cvc5 1.0 (bv-as-int) / z3 5.1.0 processes; counterexamples replayed against the native build"}],
 "checks":checks,
 "not_applicable":[
  {"property_id":"C11","reason":"quantifies over goroutine schedules and lock interleavings; the encoder is a sequential SSA interpreter and no encoding of Go's scheduler/memory model is within reach (DESIGN.md §4)"},
  {"property_id":"C17","reason":"24k-line generated PEG parsers over symbolic bytes explode beyond any useful bound; the query life-cycle half is goroutines, channels and timers (DESIGN.md §4)"}],
 "notes":"checks for the remaining properties are being added; see DESIGN.md. Genuine defects found by the checks and repaired in /repo are listed as 'fixed' in known_findings.json."}
NA=json.load(open('/verif/tools/manifest_na.json')) if __import__('os').path.exists('/verif/tools/manifest_na.json') else []
m["not_applicable"]+=NA
json.dump(m,open('/verif/MANIFEST.json','w'),indent=1)
print(sorted(C))
