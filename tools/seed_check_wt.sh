#!/bin/bash
# seed_check_wt.sh <worktree> <seed-id> <property> [tier] [extra gosym args]: run the check against a scratch
# worktree that has the seeded change applied (used while another run is reading /repo).
# The official procedure (apply to /repo, run, undo) is tools/seed_check.sh.
wt="$1"; id="$2"; prop="$3"; tier="${4:-quick}"; shift 4
cd /verif
cp evidence/$prop.json /tmp/evid_$prop.bak 2>/dev/null
VERIF_REPO="$wt" ./check $prop $tier "$@" > /tmp/seedcheck_$id.log 2>&1; rc=$?
cp /tmp/evid_$prop.bak evidence/$prop.json 2>/dev/null
echo "seed $id property $prop tier $tier (worktree $wt): exit=$rc"; grep -c "^VIOLATION" /tmp/seedcheck_$id.log; grep "^VIOLATION\|^INCONCLUSIVE\|^ENGINE" /tmp/seedcheck_$id.log | head -4 | cut -c1-300
