#!/bin/bash
# seed_verify.sh <worktree> <seed-id>: confirm a seeded change in its scratch worktree
#  (demo fails with the change, passes without; existing package tests pass with it),
#  then store it under /verif/seeded/<seed-id>/.
export GOFLAGS=-mod=mod GOPROXY=off GOSUMDB=off GOTOOLCHAIN=local
wt="$1"; id="$2"
cd "$wt" || exit 2
meta=seed/meta.json
pkg=$(python3 -c "import json;print(json.load(open('$meta'))['package_dir'])")
demo=$(python3 -c "import json;print(json.load(open('$meta'))['demo_cmd'])")
echo "== $id pkg=$pkg demo=$demo"
git stash list | head -2
# state: change applied + demo present
eval "$demo" > /tmp/seed_$id.with.log 2>&1; rc_with=$?
git diff --stat | tail -1
# take the tracked source change out and put it back with a patch file (git stash is shared between worktrees)
git diff -- . ':!seed' > /tmp/seed_$id.change.patch
git apply -R /tmp/seed_$id.change.patch
eval "$demo" > /tmp/seed_$id.without.log 2>&1; rc_without=$?
git apply /tmp/seed_$id.change.patch
# existing tests with the change, demo moved aside
demo_file=$(ls $pkg/zz_seeded_demo_test.go 2>/dev/null)
[ -n "$demo_file" ] && mv "$demo_file" /tmp/seed_$id.demo.go
go test -vet=off -count=1 ./$pkg/... > /tmp/seed_$id.existing.log 2>&1; rc_exist=$?
[ -n "$demo_file" ] && mv /tmp/seed_$id.demo.go "$demo_file"
echo "demo with change rc=$rc_with (want !=0); without rc=$rc_without (want 0); existing tests rc=$rc_exist (want 0)"
if [ $rc_with -ne 0 ] && [ $rc_without -eq 0 ] && [ $rc_exist -eq 0 ]; then
  mkdir -p /verif/seeded/$id
  cp seed/patch.diff seed/meta.json /verif/seeded/$id/
  cp "$pkg/zz_seeded_demo_test.go" /verif/seeded/$id/ 2>/dev/null || cp seed/zz_seeded_demo_test.go /verif/seeded/$id/
  # make sure the patch is the source change only and applies to a clean tree
  git diff -- . ':!seed' ':!**/zz_seeded_demo_test.go' > /verif/seeded/$id/patch.diff
  echo "CONFIRMED $id"
else
  echo "NOT-CONFIRMED $id"; tail -5 /tmp/seed_$id.with.log /tmp/seed_$id.without.log /tmp/seed_$id.existing.log
fi
