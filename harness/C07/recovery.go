//go:build verif

package query

// C07 (recovery scan): whatever mixture of segment directories a crashed history left
// behind, the startup scan that re-registers unrotated segments from their .sfm files
// registers every directory holding a complete .sfm exactly once, registers nothing for
// directories without one, and is not stopped by the directories it has to skip.
//
//verif:pkg pkg/segment/query
//verif:entry VerifC07RecoveryScan conf=0 replay=no
//verif:stub-always encoding/json.Unmarshal verifC07RecUnmarshal
//verif:stub-always github.com/siglens/siglens/pkg/blob.DownloadSegmentBlob verifC07RecNoBlob
//verif:stub-always github.com/siglens/siglens/pkg/virtualtable.GetVirtualTableNames verifC07RecTables
//verif:stub-always github.com/siglens/siglens/pkg/config.GetBaseVTableDir verifC07RecBaseDir
//verif:stub-always github.com/siglens/siglens/pkg/utils.CreateStreamId verifC07RecStreamId
//verif:stub-always github.com/siglens/siglens/pkg/segment/metadata.GetMicroIndex verifC07RecGetMicroIndex
//verif:stub-always github.com/siglens/siglens/pkg/segment/metadata.ProcessSegmetaInfo verifC07RecProcess
//verif:stub-always github.com/siglens/siglens/pkg/segment/metadata.BulkAddSegmentMicroIndex verifC07RecBulkAdd
//verif:stub-always github.com/siglens/siglens/pkg/segment/writer.BulkAddRotatedSegmetas verifC07RecBulkAddRotated
//verif:bound one index whose directory holds 3 (quick) / 4 (thorough) segment directories, each independently in one of five states: no .sfm, complete .sfm, complete .sfm and already listed in segmeta.json, complete .sfm and already loaded in memory, .sfm torn by a crash (not a complete document); the LatestEpochMS of every .sfm is a free 16-bit value
//verif:outside the content of the registered metadata beyond segment key and record count, the segmeta.json scan itself (ReadSegFullMetas), several indexes or organisations, anything concurrent
//verif:assume json.Unmarshal is a contract stub (a complete document decodes to the value it was made from, anything else is an error); the in-memory segment table and the segmeta.json writer are replaced by recording stubs; GetVirtualTableNames / CreateStreamId / GetBaseVTableDir return the harness's single index and directory

import (
	"errors"
	"os"
	"strconv"

	segmetadata "github.com/siglens/siglens/pkg/segment/metadata"
	"github.com/siglens/siglens/pkg/segment/structs"
	zz "github.com/siglens/siglens/pkg/zzverif"
)

const verifC07RecBase = "/data/ind/stream"

var (
	verifC07RecLoaded     map[string]bool
	verifC07RecAdded      map[string]int
	verifC07RecAddedRot   map[string]int
	verifC07RecAddedCount map[string]int
)

func verifC07RecSegKey(i int) string {
	s := strconv.Itoa(i)
	return verifC07RecBase + "/" + s + "/" + s
}

func verifC07RecUnmarshal(data []byte, v any) error {
	sfm, ok := v.(*structs.SegFullMeta)
	if !ok {
		return errors.New("verif: unexpected json.Unmarshal target")
	}
	if len(data) != 6 || data[0] != '{' || data[5] != '}' {
		return errors.New("unexpected end of JSON input")
	}
	sfm.SegMeta = &structs.SegMeta{
		SegmentKey:    verifC07RecSegKey(int(data[1])),
		RecordCount:   int(data[2]),
		LatestEpochMS: uint64(data[3]) | uint64(data[4])<<8,
	}
	return nil
}

func verifC07RecNoBlob(fName string, logError bool) error { return errors.New("verif: no blob store") }

func verifC07RecTables(orgid int64) (map[string]bool, error) {
	return map[string]bool{"ind": true}, nil
}

func verifC07RecStreamId(indexName string, orgId int64) string { return "stream" }

func verifC07RecBaseDir(streamid string, virtualTableName string) string { return verifC07RecBase }

func verifC07RecGetMicroIndex(segKey string) (*segmetadata.SegmentMicroIndex, bool) {
	if verifC07RecLoaded[segKey] {
		return &segmetadata.SegmentMicroIndex{}, true
	}
	return nil, false
}

func verifC07RecProcess(segMetaInfo *structs.SegMeta) *segmetadata.SegmentMicroIndex {
	return &segmetadata.SegmentMicroIndex{SegMeta: *segMetaInfo}
}

func verifC07RecBulkAdd(all []*segmetadata.SegmentMicroIndex) {
	for _, smi := range all {
		verifC07RecAdded[smi.SegmentKey]++
		verifC07RecAddedCount[smi.SegmentKey] = smi.RecordCount
	}
}

func verifC07RecBulkAddRotated(finalSegmetas []*structs.SegMeta, shouldWriteSfm bool) {
	for _, sm := range finalSegmetas {
		verifC07RecAddedRot[sm.SegmentKey]++
	}
}

func VerifC07RecoveryScan() {
	n := 3
	if zz.Tier() >= 1 {
		n = 4
	}
	verifC07RecLoaded = map[string]bool{}
	verifC07RecAdded = map[string]int{}
	verifC07RecAddedRot = map[string]int{}
	verifC07RecAddedCount = map[string]int{}
	known := map[string]struct{}{}
	state := make([]int, n)
	for i := 0; i < n; i++ {
		s := strconv.Itoa(i)
		key := verifC07RecSegKey(i)
		zz.Assume(os.MkdirAll(verifC07RecBase+"/"+s, 0755) == nil)
		state[i] = zz.Choice(zz.Name("state", i), 5)
		epoch := zz.U16(zz.Name("latestEpoch", i))
		doc := []byte{'{', byte(i), byte(10 + i), byte(epoch), byte(epoch >> 8), '}'}
		switch state[i] {
		case 0: // the process died before the first flush of this segment finished
		case 1:
			zz.Assume(os.WriteFile(key+".sfm", doc, 0644) == nil)
		case 2:
			zz.Assume(os.WriteFile(key+".sfm", doc, 0644) == nil)
			known[key] = struct{}{}
		case 3:
			zz.Assume(os.WriteFile(key+".sfm", doc, 0644) == nil)
			verifC07RecLoaded[key] = true
		case 4:
			cut := 1 + zz.Choice(zz.Name("tornAt", i), 5)
			zz.Assume(os.WriteFile(key+".sfm", doc[:cut], 0644) == nil)
		}
	}
	useNilKnown := zz.Bool("segmetaJsonAbsent")
	var added int
	if useNilKnown && len(known) == 0 {
		added = syncSegMetaWithSegFullMeta(0, nil)
	} else {
		added = syncSegMetaWithSegFullMeta(0, known)
	}
	want := 0
	for i := 0; i < n; i++ {
		key := verifC07RecSegKey(i)
		if state[i] == 1 {
			want++
			zz.Assert(verifC07RecAdded[key] == 1, "recovery/flushed-segment-registered-exactly-once")
			zz.Assert(verifC07RecAddedRot[key] == 1, "recovery/flushed-segment-listed-exactly-once")
			zz.Assert(verifC07RecAddedCount[key] == 10+i, "recovery/registered-with-its-own-record-count")
		} else {
			zz.Assert(verifC07RecAdded[key] == 0 && verifC07RecAddedRot[key] == 0, "recovery/nothing-registered-twice-or-from-an-incomplete-file")
		}
	}
	zz.Assert(added == want, "recovery/reported-count-matches")
}
