//go:build verif

package writer

// C07 (narrow): rewriting a segment's .sfm metadata file is atomic with respect
// to a crash at any point: a reader afterwards sees the old or the new document,
// never neither.
//
//verif:pkg pkg/segment/writer
//verif:entry VerifC07SfmRewriteCrash conf=0 replay=no
//verif:entry VerifC07ChunkAppendCrash conf=0 replay=no
//verif:stub-always encoding/json.Marshal verifC07Marshal
//verif:stub-always encoding/json.Unmarshal verifC07Unmarshal
//verif:stub-always github.com/siglens/siglens/pkg/blob.DownloadSegmentBlob verifC07NoBlob
//verif:bound WriteSfm(new) over an existing complete document with the crash point a free variable over every file-system operation it issues (create/truncate, write - possibly torn at any byte -, sync, rename), then ReadSfm
//verif:bound ChecksumFile: two complete chunks, then a third chunk appended with AppendPartialChunk x2 + Flush under a crash at any operation (writes possibly torn): the first two chunks still read back exactly
//verif:outside ordering of column blocks vs .bsu vs .sst vs .sfm during a flush, suffix files, the virtual-table file, the segmeta.json recovery scan, PQMR files, 'later ingestion does not overwrite recovered data', anything concurrent; crash-point counterexamples are not replayed natively (no crash injection in the native build)
//verif:assume json.Marshal/Unmarshal are contract stubs: a complete document decodes to the value it was made from, anything else is an error; the file model applies operations in order and a crash loses nothing already written (no reordering, rename is atomic)

import (
	"errors"
	"os"

	"github.com/siglens/siglens/pkg/segment/structs"
	"github.com/siglens/siglens/pkg/utils"
	zz "github.com/siglens/siglens/pkg/zzverif"
)

func verifC07Marshal(v any) ([]byte, error) {
	if sfm, ok := v.(structs.SegFullMeta); ok && sfm.SegMeta != nil {
		return []byte{'{', byte(sfm.SegMeta.RecordCount), byte(sfm.SegMeta.RecordCount >> 8), '}'}, nil
	}
	return nil, errors.New("verif: unexpected json.Marshal argument")
}

func verifC07Unmarshal(data []byte, v any) error {
	sfm, ok := v.(*structs.SegFullMeta)
	if !ok {
		return errors.New("verif: unexpected json.Unmarshal target")
	}
	if len(data) != 4 || data[0] != '{' || data[3] != '}' {
		return errors.New("unexpected end of JSON input")
	}
	sfm.SegMeta = &structs.SegMeta{RecordCount: int(data[1]) | int(data[2])<<8}
	return nil
}

func verifC07NoBlob(fName string, logError bool) error { return errors.New("verif: no blob store") }

func VerifC07SfmRewriteCrash() {
	dir, err := os.MkdirTemp("", "verifsfm")
	zz.Assume(err == nil)
	segkey := dir + "/0"
	oldCount, newCount := int(zz.U16("oldRecordCount")), int(zz.U16("newRecordCount"))
	WriteSfm(&structs.SegFullMeta{SegMeta: &structs.SegMeta{SegmentKey: segkey, RecordCount: oldCount}})
	got, err := ReadSfm(segkey)
	zz.Assert(err == nil && got.SegMeta != nil && got.RecordCount == oldCount, "sfm/roundtrip")

	k := 1 + zz.Choice("crashBeforeOp", 6)
	zz.TornWrites(true)
	crashed := zz.RunCrash(func() {
		zz.CrashBefore(k)
		WriteSfm(&structs.SegFullMeta{SegMeta: &structs.SegMeta{SegmentKey: segkey, RecordCount: newCount}})
	})
	got, err = ReadSfm(segkey)
	zz.Assert(err == nil && got.SegMeta != nil, "sfm/readable-after-a-crash-at-any-point")
	if err == nil && got.SegMeta != nil {
		zz.Assert(got.RecordCount == oldCount || got.RecordCount == newCount, "sfm/old-or-new-never-garbage")
		if !crashed {
			zz.Assert(got.RecordCount == newCount, "sfm/completed-rewrite-is-visible")
		}
	}
}

func VerifC07ChunkAppendCrash() {
	dir, err := os.MkdirTemp("", "verifcsg")
	zz.Assume(err == nil)
	fd, err := os.OpenFile(dir+"/col.csg", os.O_RDWR|os.O_CREATE, 0644)
	zz.Assume(err == nil)
	csf := &utils.ChecksumFile{Fd: fd}
	c1, c2, c3 := zz.Bytes("c1", 2), zz.Bytes("c2", 3), zz.Bytes("c3", 4)
	zz.Assume(csf.AppendChunk(c1) == nil)
	zz.Assume(csf.AppendPartialChunk(c2[:1]) == nil && csf.AppendPartialChunk(c2[1:]) == nil && csf.Flush() == nil)
	off2 := int64(12 + len(c1))
	off3 := off2 + int64(12+len(c2))
	k := 1 + zz.Choice("crashBeforeOp", 7)
	zz.TornWrites(true)
	crashed := zz.RunCrash(func() {
		zz.CrashBefore(k)
		_ = csf.AppendPartialChunk(c3[:2])
		_ = csf.AppendPartialChunk(c3[2:])
		_ = csf.Flush()
	})
	// restart: reopen the file
	fd2, err := os.OpenFile(dir+"/col.csg", os.O_RDWR, 0644)
	zz.Assert(err == nil, "chunks/reopen")
	r := &utils.ChecksumFile{Fd: fd2}
	same := func(a, b []byte) bool {
		for i := range a {
			if a[i] != b[i] {
				return false
			}
		}
		return true
	}
	b1 := make([]byte, len(c1))
	n, err := r.ReadAt(b1, 0)
	zz.Assert(err == nil && n == len(c1) && same(b1, c1), "chunks/earlier-chunk-1-intact-after-crash")
	b2 := make([]byte, len(c2))
	n, err = r.ReadAt(b2, off2)
	zz.Assert(err == nil && n == len(c2) && same(b2, c2), "chunks/earlier-chunk-2-intact-after-crash")
	b3 := make([]byte, len(c3))
	n, err = r.ReadAt(b3, off3)
	if err == nil {
		zz.Assert(n == len(c3) && same(b3, c3), "chunks/torn-chunk-never-read-as-valid-data")
	}
	if !crashed {
		zz.Assert(err == nil, "chunks/completed-append-is-readable")
	}
}
