//go:build verif

package pqmr

// C07 (persistent-query match results): the .pqmr file is appended to at the end of every
// buffer flush. If the process dies inside such an append, the blocks appended by earlier
// flushes still read back exactly, and the block being appended is either absent or exact -
// never a mixture carrying another block's match bits.
//
//verif:pkg pkg/segment/pqmr
//verif:entry VerifC07PqmrAppendCrash conf=0 replay=no
//verif:bound block 0 with 64 free match bits appended completely, then block 1 with 64 free match bits appended by FlushPqmr with the process dying before any of its file-system operations (thorough: the write it dies in torn at any byte) or not at all; then ReadPqmr
//verif:outside when the pqmr file is read during recovery (persistent-query bookkeeping), several persistent queries, blocks longer than one 64-bit word, appends after a torn tail (a new process writes to a new segment)
//verif:assume the file-system model applies operations in order; a crash loses nothing already written

import (
	"os"

	"github.com/bits-and-blooms/bitset"
	zz "github.com/siglens/siglens/pkg/zzverif"
)

func VerifC07PqmrAppendCrash() {
	dir, err := os.MkdirTemp("", "verifpqmr")
	zz.Assume(err == nil)
	fname := dir + "/q.pqmr"
	w0, w1 := zz.U64("block0Bits"), zz.U64("block1Bits")
	b0 := CreatePQMatchResultsFromBs(bitset.From([]uint64{w0}))
	b1 := CreatePQMatchResultsFromBs(bitset.From([]uint64{w1}))
	zz.Assume(b0.FlushPqmr(&fname, 0) == nil)

	crashAt := zz.Choice("crashBeforeOp", 12)
	zz.TornWrites(zz.Tier() > 0)
	var flushErr error
	crashed := zz.RunCrash(func() {
		zz.CrashBefore(crashAt)
		flushErr = b1.FlushPqmr(&fname, 1)
	})
	zz.Assume(crashed == (crashAt != 0))
	zz.Assert(zz.FsOps() <= 11, "pqmr/crash-point-range-covers-every-operation")
	zz.Assert(crashed || flushErr == nil, "pqmr/append-no-error")

	res, err := ReadPqmr(&fname)
	zz.Assert(err == nil && res != nil, "pqmr/readable-after-a-crash-at-any-point")
	if err != nil || res == nil {
		return
	}
	got0, ok0 := res.GetBlockResults(0)
	zz.Assert(ok0, "pqmr/earlier-block-still-present")
	if ok0 {
		for i := uint(0); i < 64; i++ {
			zz.Assert(got0.DoesRecordMatch(i) == ((w0>>i)&1 == 1), "pqmr/earlier-block-reads-back-exactly")
		}
	}
	got1, ok1 := res.GetBlockResults(1)
	if !crashed {
		zz.Assert(ok1, "pqmr/completed-append-is-visible")
	}
	if ok1 {
		for i := uint(0); i < 64; i++ {
			zz.Assert(got1.DoesRecordMatch(i) == ((w1>>i)&1 == 1), "pqmr/block-in-progress-is-absent-or-exact")
		}
	}
}
