//go:build verif

package suffix

// C07 (later ingestion does not overwrite recovered data): segment directory suffixes are
// handed out from a counter file. Whatever instant the process dies at while a suffix is
// being allocated, a suffix handed out before the crash is never handed out again after it.
//
//verif:pkg pkg/segment/writer/suffix
//verif:entry VerifC07SuffixNeverReused conf=0 replay=no
//verif:stub-always encoding/json.Marshal verifC07sMarshal
//verif:stub-always encoding/json.Unmarshal verifC07sUnmarshal
//verif:bound a counter file holding a free 16-bit next suffix (or absent); one allocation that completes; a second allocation with the process dying before any of its file-system operations (write of the temporary file possibly torn) or completing; then a third allocation after the restart
//verif:outside the suffix hook of the enterprise build (nil), several streams (one counter file each), a counter file damaged on disk
//verif:assume json.Marshal/Unmarshal are contract stubs over the counter entry (a complete document decodes to the value it was made from, anything else is an error); rename is atomic

import (
	"errors"
	"os"

	zz "github.com/siglens/siglens/pkg/zzverif"
)

func verifC07sMarshal(v any) ([]byte, error) {
	e, ok := v.(*entry)
	if !ok {
		return nil, errors.New("verif: unexpected json.Marshal argument")
	}
	return []byte{'{', byte(e.NextSuffix), byte(e.NextSuffix >> 8), byte(e.NextSuffix >> 16), '}'}, nil
}

func verifC07sUnmarshal(data []byte, v any) error {
	e, ok := v.(*entry)
	if !ok {
		return errors.New("verif: unexpected json.Unmarshal target")
	}
	if len(data) != 5 || data[0] != '{' || data[4] != '}' {
		return errors.New("unexpected end of JSON input")
	}
	e.NextSuffix = uint64(data[1]) | uint64(data[2])<<8 | uint64(data[3])<<16
	return nil
}

func VerifC07SuffixNeverReused() {
	file := "/d/suffix/t/s.suffix"
	if zz.Choice("counterFileExists", 2) == 1 {
		n := uint64(zz.U16("storedNextSuffix"))
		zz.Assume(os.MkdirAll("/d/suffix/t", 0755) == nil)
		zz.Assume(os.WriteFile(file, []byte{'{', byte(n), byte(n >> 8), 0, '}'}, 0644) == nil)
	}
	first, err := getAndIncrementSuffixFromFile(file, nil)
	zz.Assert(err == nil, "suffix/first-allocation-succeeds")

	crashAt := zz.Choice("crashBeforeOp", 8)
	base := zz.FsOps()
	zz.TornWrites(true)
	var second uint64
	var secondErr error
	crashed := zz.RunCrash(func() {
		zz.CrashBefore(crashAt) // relative to the operations performed so far; 0 = no crash
		second, secondErr = getAndIncrementSuffixFromFile(file, nil)
	})
	zz.Assume(crashed == (crashAt != 0))
	zz.Assert(zz.FsOps()-base <= 7, "suffix/crash-point-range-covers-every-operation")
	if !crashed {
		zz.Assert(secondErr == nil && second > first, "suffix/allocations-increase")
	}

	third, err := getAndIncrementSuffixFromFile(file, nil)
	zz.Assert(err == nil, "suffix/allocation-after-restart-succeeds")
	zz.Assert(third > first, "suffix/a-suffix-handed-out-before-the-crash-is-never-handed-out-again")
	if !crashed {
		zz.Assert(third > second, "suffix/a-suffix-handed-out-before-the-crash-is-never-handed-out-again")
	}
}
