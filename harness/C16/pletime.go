//go:build verif

package writer

// C16 (time half, second part): an event time set by the protocol handler (OTLP
// sets it from TimeUnixNano) survives the common ingest path; the arrival time
// is used only when the event has no time of its own.
//
//verif:pkg pkg/es/writer
//verif:entry VerifC16EventTimeSurvivesIngest conf=0 replay=no
//verif:stub-always github.com/siglens/siglens/pkg/es/writer.AddAndGetRealIndexName verifC16RealIndexName
//verif:stub-always github.com/siglens/siglens/pkg/utils.CreateStreamId verifC16StreamId
//verif:stub-always github.com/siglens/siglens/pkg/segment/writer.AddEntryToInMemBuf verifC16Capture
//verif:stub-always github.com/siglens/siglens/pkg/config.GetTimeStampKey verifC16TsKey
//verif:bound ProcessIndexRequestPle with one event: handler-set time any 64-bit value (0 = none), arrival time any non-zero value; document without a timestamp field, or with a millisecond "timestamp" field
//verif:assume virtual-table registration, stream-id creation and the in-memory buffer are stubs (the buffer stub captures the events it is given); the timestamp key is "timestamp"

import (
	sutils "github.com/siglens/siglens/pkg/segment/utils"
	"github.com/siglens/siglens/pkg/segment/writer"
	zz "github.com/siglens/siglens/pkg/zzverif"
)

var verifC16Got []*writer.ParsedLogEvent

func verifC16RealIndexName(indexNameIn string, localIndexMap map[string]string, myid int64) string {
	return indexNameIn
}
func verifC16StreamId(indexName string, orgId int64) string { return "s" }
func verifC16TsKey() string                                 { return "timestamp" }
func verifC16Capture(streamid string, indexName string, flush bool, signalType sutils.SIGNAL_TYPE, orgid int64, rid uint64,
	cnameCacheByteHashToStr map[uint64]string, jsParsingStackbuf []byte, pleArray []*writer.ParsedLogEvent) error {
	verifC16Got = pleArray
	return nil
}

func VerifC16EventTimeSurvivesIngest() {
	verifC16Got = nil
	handlerTime := zz.U64("handlerTime")
	now := zz.U64("arrival")
	zz.Assume(now != 0)
	hasOwnField := zz.Choice("docHasTimestampField", 2) == 1
	raw := []byte(`{"msg":"x"}`)
	if hasOwnField {
		raw = []byte(`{"msg":"x","timestamp":1700000000123}`)
	}
	ple := writer.NewPLE()
	ple.SetIndexName("idx")
	ple.SetRawJson(raw)
	ple.SetTimestamp(handlerTime)
	var buf [64]byte
	err := ProcessIndexRequestPle(now, "idx", false, map[string]string{}, 0, 0, map[string]string{}, map[uint64]string{}, buf[:], []*writer.ParsedLogEvent{ple})
	zz.Assert(err == nil && len(verifC16Got) == 1, "pletime/event-handed-to-the-store")
	if len(verifC16Got) != 1 {
		return
	}
	got := verifC16Got[0].GetTimestamp()
	switch {
	case hasOwnField:
		zz.Assert(got == 1700000000123, "pletime/document-timestamp-field-wins")
	case handlerTime != 0:
		zz.Assert(got == handlerTime, "pletime/handler-set-event-time-is-kept")
	default:
		zz.Assert(got == now, "pletime/arrival-time-only-when-event-has-no-time")
	}
}
