//go:build verif

package utils

// C16 (time half): the event time an event carries is stored in milliseconds
// whatever unit and JSON form it was written in.
//
//verif:pkg pkg/utils
//verif:entry VerifC16ExtractTimeStamp conf=8
//verif:stub github.com/buger/jsonparser.Get verifStubJpGet
//verif:stub github.com/buger/jsonparser.ParseInt verifStubJpParseInt
//verif:stub github.com/buger/jsonparser.ParseFloat verifStubJpParseFloat
//verif:stub github.com/buger/jsonparser.ParseString verifStubJpParseString
//verif:stub strconv.ParseUint verifStubParseUint
//verif:bound every 64-bit integer timestamp v in the seconds band [1e9,4e9], the millisecond band [1e12,1e14] and the nanosecond band [1e18,2^63); integer-number, decimal-point-number (below 2^53) and string JSON forms
//verif:outside RFC3339 strings (time.Parse), microsecond timestamps (no documented handling), float timestamps beyond 2^53, the JSON tokenizer itself
//verif:assume jsonparser.Get/ParseInt/ParseString and strconv.ParseUint are contract stubs under the engine: they return the document's integer v exactly (ParseInt fails above MaxInt64 like the real one); natively the real parsers run on the decimal rendering of v

import (
	"strconv"

	jp "github.com/buger/jsonparser"
	zz "github.com/siglens/siglens/pkg/zzverif"
)

var verifTsVal uint64
var verifTsIsString bool
var verifTsFloatForm bool // a JSON number written with a decimal point / exponent

func verifStubJpGet(data []byte, keys ...string) ([]byte, jp.ValueType, int, error) {
	if verifTsIsString {
		return data, jp.String, 0, nil
	}
	return data, jp.Number, 0, nil
}

func verifStubJpParseInt(b []byte) (int64, error) {
	if verifTsFloatForm {
		return 0, jp.MalformedValueError
	}
	if verifTsVal > 1<<63-1 {
		return 0, jp.OverflowIntegerError
	}
	return int64(verifTsVal), nil
}

func verifStubJpParseFloat(b []byte) (float64, error) { return float64(verifTsVal), nil }

func verifStubJpParseString(b []byte) (string, error) { return "v", nil }

func verifStubParseUint(s string, base int, bitSize int) (uint64, error) { return verifTsVal, nil }

func verifC16Doc(v uint64, asString bool) []byte {
	return verifC16DocForm(v, asString, false)
}

func verifC16DocForm(v uint64, asString bool, floatForm bool) []byte {
	if zz.Symbolic() {
		verifTsVal, verifTsIsString, verifTsFloatForm = v, asString, floatForm
		return []byte("{}")
	}
	if floatForm {
		return []byte(`{"timestamp":` + strconv.FormatUint(v, 10) + `.0}`)
	}
	if asString {
		return []byte(`{"timestamp":"` + strconv.FormatUint(v, 10) + `"}`)
	}
	return []byte(`{"timestamp":` + strconv.FormatUint(v, 10) + `}`)
}

func VerifC16ExtractTimeStamp() {
	key := "timestamp"
	v := zz.U64("v")
	band := zz.Choice("band", 3)
	var want uint64
	switch band {
	case 0:
		zz.Assume(v >= 1_000_000_000 && v <= 4_000_000_000)
		want = v * 1000
	case 1:
		zz.Assume(v >= 1_000_000_000_000 && v <= 100_000_000_000_000)
		want = v
	case 2:
		zz.Assume(v >= 1_000_000_000_000_000_000 && v < 1<<63)
		want = v / 1_000_000
	}
	asNum := ExtractTimeStamp(verifC16Doc(v, false), &key)
	asStr := ExtractTimeStamp(verifC16Doc(v, true), &key)
	zz.Observe("num", asNum)
	zz.Observe("str", asStr)
	switch band {
	case 0:
		zz.Assert(asNum == want, "seconds/number-form-to-ms")
		zz.Assert(asStr == want, "seconds/string-form-to-ms")
	case 1:
		zz.Assert(asNum == want, "millis/number-form-unchanged")
		zz.Assert(asStr == want, "millis/string-form-unchanged")
	case 2:
		zz.Assert(asStr == want, "nanos/string-form-to-ms")
		zz.Assert(asNum == want, "nanos/number-form-to-ms")
	}
	zz.Assert(asNum != 0 && asStr != 0, "own-time-never-zero")
	// the same instant written as a JSON number with a decimal point (1714352490251.0):
	// exactly representable below 2^53, so the stored time must be the same
	if v < 1<<53 {
		asFlt := ExtractTimeStamp(verifC16DocForm(v, false, true), &key)
		zz.Observe("flt", asFlt)
		zz.Assert(asFlt == want, "float-form-number-same-instant")
	}
}
