//go:build verif

package otlp

// C16 (OTLP traces, resource level): every span of an export request is stored with the
// service name of its own resource - the empty name when that resource has none - whatever
// the resources before it in the same request carried.
//
//verif:pkg pkg/otlp
//verif:entry VerifC16OtlpSpansKeepTheirResourcesService conf=0 replay=no
//verif:stub-always encoding/json.Marshal verifC16trMarshal
//verif:stub-always (go.opentelemetry.io/proto/otlp/trace/v1.Span_SpanKind).String verifC16trKindString
//verif:stub-always (go.opentelemetry.io/proto/otlp/trace/v1.Status_StatusCode).String verifC16trStatusString
//verif:stub-always github.com/siglens/siglens/pkg/otlp.getDataToUnmarshal verifC16trData
//verif:stub-always github.com/siglens/siglens/pkg/otlp.unmarshalTraceRequest verifC16trRequest
//verif:stub-always github.com/siglens/siglens/pkg/otlp.HandleTraceIngestionResponse verifC16trResponse
//verif:stub-always github.com/siglens/siglens/pkg/segment/writer.GetNewPLE verifC16trGetNewPLE
//verif:stub-always github.com/siglens/siglens/pkg/es/writer.ProcessIndexRequestPle verifC16trProcess
//verif:stub-always github.com/siglens/siglens/pkg/usageStats.UpdateTracesStats verifC16trNoStats
//verif:stub-always github.com/siglens/siglens/pkg/utils.GetCurrentTimeInMs verifC16trNow
//verif:bound an export request of 2..3 resources; each resource is absent (nil), has no service.name attribute, or names service a or b (free), optionally after another attribute; one or two spans per resource with distinct span ids; ProcessTraceIngest
//verif:outside protobuf / JSON decoding of the request (the decoded request is supplied by a stub), scopes, the ingest path after the record is built, the HTTP response
//verif:assume json.Marshal captures each record map; GetNewPLE / ProcessIndexRequestPle / response helpers are no-op stubs

import (
	"github.com/valyala/fasthttp"
	coltracepb "go.opentelemetry.io/proto/otlp/collector/trace/v1"
	commonpb "go.opentelemetry.io/proto/otlp/common/v1"
	resourcepb "go.opentelemetry.io/proto/otlp/resource/v1"
	tracepb "go.opentelemetry.io/proto/otlp/trace/v1"

	segwriter "github.com/siglens/siglens/pkg/segment/writer"
	zz "github.com/siglens/siglens/pkg/zzverif"
)

var (
	verifC16trReq      *coltracepb.ExportTraceServiceRequest
	verifC16trRecords  []map[string]interface{}
	verifC16trAnswered int
)

func verifC16trKindString(k tracepb.Span_SpanKind) string       { return "SPAN_KIND_UNSPECIFIED" }
func verifC16trStatusString(c tracepb.Status_StatusCode) string { return "STATUS_CODE_UNSET" }
func verifC16trMarshal(v any) ([]byte, error) {
	if m, ok := v.(map[string]interface{}); ok {
		verifC16trRecords = append(verifC16trRecords, m)
	}
	return []byte("{}"), nil
}
func verifC16trData(ctx *fasthttp.RequestCtx) ([]byte, error) { return []byte{1}, nil }
func verifC16trRequest(data []byte) (*coltracepb.ExportTraceServiceRequest, error) {
	return verifC16trReq, nil
}
func verifC16trResponse(ctx *fasthttp.RequestCtx, numSpans int, numFailedSpans int) {
	verifC16trAnswered++
	zz.Assert(numFailedSpans == 0, "otlptraces/no-span-reported-as-failed")
}
func verifC16trGetNewPLE(rawJson []byte, tsNow uint64, indexName string, tsKey *string, jsParsingStackbuf []byte) (*segwriter.ParsedLogEvent, error) {
	return segwriter.NewPLE(), nil
}
func verifC16trProcess(tsNow uint64, indexNameIn string, flush bool, localIndexMap map[string]string, myid int64, rid uint64,
	idxToStreamIdCache map[string]string, cnameCacheByteHashToStr map[uint64]string, jsParsingStackbuf []byte, pleArray []*segwriter.ParsedLogEvent) error {
	return nil
}
func verifC16trNoStats(traceBytesCount uint64, traceSpanCount uint64, orgid int64) {}
func verifC16trNow() uint64                                                        { return 1700000000000 }

func verifC16trAttr(k, v string) *commonpb.KeyValue {
	return &commonpb.KeyValue{Key: k, Value: &commonpb.AnyValue{Value: &commonpb.AnyValue_StringValue{StringValue: v}}}
}

func VerifC16OtlpSpansKeepTheirResourcesService() {
	verifC16trRecords, verifC16trAnswered = nil, 0
	nres := 2 + zz.Choice("resources", 2)
	req := &coltracepb.ExportTraceServiceRequest{}
	var wantService []string
	var wantSpan []string
	id := byte(1)
	for r := 0; r < nres; r++ {
		rs := &tracepb.ResourceSpans{}
		service := ""
		switch zz.Choice(zz.Name("resourceShape", r), 4) {
		case 0: // no resource message at all
		case 1:
			rs.Resource = &resourcepb.Resource{Attributes: []*commonpb.KeyValue{verifC16trAttr("host.name", "h")}}
		case 2:
			service = []string{"a", "b"}[zz.Choice(zz.Name("service", r), 2)]
			rs.Resource = &resourcepb.Resource{Attributes: []*commonpb.KeyValue{verifC16trAttr("service.name", service)}}
		case 3:
			service = []string{"a", "b"}[zz.Choice(zz.Name("service", r), 2)]
			rs.Resource = &resourcepb.Resource{Attributes: []*commonpb.KeyValue{verifC16trAttr("host.name", "h"), verifC16trAttr("service.name", service)}}
		}
		ss := &tracepb.ScopeSpans{}
		nsp := 1 + zz.Choice(zz.Name("spans", r), 2)
		for k := 0; k < nsp; k++ {
			ss.Spans = append(ss.Spans, &tracepb.Span{TraceId: []byte{0xaa}, SpanId: []byte{id}, Name: "op", StartTimeUnixNano: 1000, EndTimeUnixNano: 2000})
			wantService = append(wantService, service)
			wantSpan = append(wantSpan, verifC16Hex(id))
			id++
		}
		rs.ScopeSpans = []*tracepb.ScopeSpans{ss}
		req.ResourceSpans = append(req.ResourceSpans, rs)
	}
	verifC16trReq = req
	ProcessTraceIngest(&fasthttp.RequestCtx{}, 0)
	zz.Assert(verifC16trAnswered == 1, "otlptraces/request-answered-once")
	zz.Assert(len(verifC16trRecords) == len(wantSpan), "otlptraces/one-record-per-span")
	for i := 0; i < len(wantSpan) && i < len(verifC16trRecords); i++ {
		rec := verifC16trRecords[i]
		sid, _ := rec["span_id"].(string)
		svc, _ := rec["service"].(string)
		zz.Assert(sid == wantSpan[i], "otlptraces/records-in-request-order")
		zz.Assert(svc == wantService[i], "otlptraces/span-stored-with-its-own-resource's-service")
	}
}
