//go:build verif

package loki

// C16 (Loki push, JSON): every pushed entry is stored with its stream's labels, its own
// timestamp and line and its own structured metadata - not with fields of the entries pushed
// before it in the same stream.
//
//verif:pkg pkg/integrations/loki
//verif:entry VerifC16LokiEntriesKeepTheirOwnFields conf=0 replay=no
//verif:stub-always encoding/json.Unmarshal verifC16lUnmarshal
//verif:stub-always encoding/json.Marshal verifC16lMarshal
//verif:stub-always (*github.com/valyala/fasthttp.RequestCtx).PostBody verifC16lPostBody
//verif:stub-always (*github.com/valyala/fasthttp.RequestCtx).SetStatusCode verifC16lSetStatus
//verif:stub-always github.com/siglens/siglens/pkg/utils.WriteJsonResponse verifC16lWriteResponse
//verif:stub-always github.com/siglens/siglens/pkg/utils.SendError verifC16lSendError
//verif:stub-always github.com/siglens/siglens/pkg/virtualtable.IsVirtualTablePresent verifC16lTablePresent
//verif:stub-always github.com/siglens/siglens/pkg/segment/writer.GetNewPLE verifC16lGetNewPLE
//verif:stub-always github.com/siglens/siglens/pkg/es/writer.ProcessIndexRequestPle verifC16lProcess
//verif:stub-always github.com/siglens/siglens/pkg/usageStats.UpdateStats verifC16lNoStats
//verif:bound one stream with the label app=a and two or three entries, each with a timestamp, a line and optionally a structured-metadata object holding the key k (free choice per entry); processJsonLogs
//verif:outside HTTP/JSON decoding of the request body (the decoded push request is supplied by a stub), the protobuf (promtail) variant, several streams, the ingest path after the per-entry record is built
//verif:assume json.Unmarshal supplies the harness's push request; json.Marshal captures a copy of each record map it is given; GetNewPLE / ProcessIndexRequestPle / HTTP response helpers are no-op stubs

import (
	"github.com/valyala/fasthttp"

	segwriter "github.com/siglens/siglens/pkg/segment/writer"
	zz "github.com/siglens/siglens/pkg/zzverif"
)

var verifC16lRequest LokiLogData
var verifC16lRecords []map[string]interface{}
var verifC16lErrors int

func verifC16lUnmarshal(data []byte, v any) error {
	if p, ok := v.(*LokiLogData); ok {
		*p = verifC16lRequest
	}
	return nil
}
func verifC16lMarshal(v any) ([]byte, error) {
	if m, ok := v.(map[string]interface{}); ok {
		cp := map[string]interface{}{}
		for k, val := range m {
			cp[k] = val
		}
		verifC16lRecords = append(verifC16lRecords, cp)
	}
	return []byte("{}"), nil
}
func verifC16lPostBody(ctx *fasthttp.RequestCtx) []byte                     { return nil }
func verifC16lSetStatus(ctx *fasthttp.RequestCtx, statusCode int)           {}
func verifC16lWriteResponse(ctx *fasthttp.RequestCtx, httpResp interface{}) {}
func verifC16lSendError(ctx *fasthttp.RequestCtx, messageToUser string, extraMessageToLog string, err error) {
	verifC16lErrors++
}
func verifC16lTablePresent(tableName *string, orgid int64) bool { return true }
func verifC16lGetNewPLE(rawJson []byte, tsNow uint64, indexName string, tsKey *string, jsParsingStackbuf []byte) (*segwriter.ParsedLogEvent, error) {
	return segwriter.NewPLE(), nil
}
func verifC16lProcess(tsNow uint64, indexNameIn string, flush bool, localIndexMap map[string]string, myid int64, rid uint64,
	idxToStreamIdCache map[string]string, cnameCacheByteHashToStr map[uint64]string, jsParsingStackbuf []byte, pleArray []*segwriter.ParsedLogEvent) error {
	return nil
}
func verifC16lNoStats(bytesCount uint64, logLinesCount uint64, orgid int64) {}

func VerifC16LokiEntriesKeepTheirOwnFields() {
	verifC16lRecords, verifC16lErrors = nil, 0
	n := 2 + zz.Choice("entries", 2)
	hasMeta := make([]bool, n)
	var values [][]interface{}
	for i := 0; i < n; i++ {
		hasMeta[i] = zz.Choice(zz.Name("entryHasMetadata", i), 2) == 1
		entry := []interface{}{zz.Name("17000000000000000", i), zz.Name("line", i)}
		if hasMeta[i] {
			entry = append(entry, map[string]interface{}{"k": zz.Name("meta", i)})
		}
		values = append(values, entry)
	}
	verifC16lRequest = LokiLogData{Streams: []LokiLogStream{{Stream: map[string]string{"app": "a"}, Values: values}}}
	processJsonLogs(&fasthttp.RequestCtx{}, 0)
	zz.Assert(verifC16lErrors == 0 && len(verifC16lRecords) == n, "loki/one-record-per-pushed-entry")
	for i := 0; i < n && i < len(verifC16lRecords); i++ {
		r := verifC16lRecords[i]
		zz.Assert(r["app"] == "a", "loki/stream-labels-on-every-entry")
		zz.Assert(r["timestamp"] == zz.Name("17000000000000000", i) && r["line"] == zz.Name("line", i), "loki/own-timestamp-and-line")
		k, has := r["k"]
		if hasMeta[i] {
			zz.Assert(has && k == zz.Name("meta", i), "loki/own-structured-metadata")
		} else {
			zz.Assert(!has, "loki/no-fields-of-earlier-entries")
		}
	}
}
