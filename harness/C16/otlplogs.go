//go:build verif

package otlp

// C16 (OTLP logs, identifiers and time): a log record's event time, trace id and span id
// reach the stored record as they were sent: the wire identifier when present, the
// `trace_id` / `span_id` attribute only when the wire field is empty; attributes are kept.
//
//verif:pkg pkg/otlp
//verif:entry VerifC16OtlpLogRecordIdentity conf=6
//verif:bound one OTLP log record with a free 64-bit TimeUnixNano / ObservedTimeUnixNano, TraceId and SpanId each absent or one free byte, and any subset of the string attributes trace_id, span_id and one ordinary attribute; a string body
//verif:outside protobuf decoding of the request, resource and scope attributes, the JSON rendering of the record and the ingest path after it (VerifC16EventTimeSurvivesIngest), the other protocols' handlers (HTTP/JSON/protobuf parsing is outside the encoding)

import (
	commonpb "go.opentelemetry.io/proto/otlp/common/v1"
	logpb "go.opentelemetry.io/proto/otlp/logs/v1"

	zz "github.com/siglens/siglens/pkg/zzverif"
)

func verifC16Attr(k, v string) *commonpb.KeyValue {
	return &commonpb.KeyValue{Key: k, Value: &commonpb.AnyValue{Value: &commonpb.AnyValue_StringValue{StringValue: v}}}
}

func verifC16Hex(b byte) string {
	const digits = "0123456789abcdef"
	return string([]byte{digits[b>>4], digits[b&15]})
}

func VerifC16OtlpLogRecordIdentity() {
	lr := &logpb.LogRecord{
		TimeUnixNano:         zz.U64("timeUnixNano"),
		ObservedTimeUnixNano: zz.U64("observedTimeUnixNano"),
		Body:                 &commonpb.AnyValue{Value: &commonpb.AnyValue_StringValue{StringValue: "hello"}},
	}
	wantTrace, wantSpan := "", ""
	hasTrace := zz.Choice("wireTraceId", 2) == 1
	hasSpan := zz.Choice("wireSpanId", 2) == 1
	if hasTrace {
		b := zz.U8("traceIdByte")
		lr.TraceId = []byte{b}
		wantTrace = verifC16Hex(b)
	}
	if hasSpan {
		b := zz.U8("spanIdByte")
		lr.SpanId = []byte{b}
		wantSpan = verifC16Hex(b)
	}
	attrTrace := zz.Choice("traceIdAttribute", 2) == 1
	attrSpan := zz.Choice("spanIdAttribute", 2) == 1
	attrOther := zz.Choice("otherAttribute", 2) == 1
	if attrOther {
		lr.Attributes = append(lr.Attributes, verifC16Attr("k", "v"))
	}
	if attrTrace {
		lr.Attributes = append(lr.Attributes, verifC16Attr("trace_id", "tt"))
		if !hasTrace {
			wantTrace = "tt"
		}
	}
	if attrSpan {
		lr.Attributes = append(lr.Attributes, verifC16Attr("span_id", "ss"))
		if !hasSpan {
			wantSpan = "ss"
		}
	}
	rec, index, err := extractLogRecord(lr, &resourceInfo{}, &scopeInfo{}, "idx")
	zz.Assert(err == nil && rec != nil, "otlplogs/record-accepted")
	if err != nil || rec == nil {
		return
	}
	zz.Observe("traceId", rec.TraceId)
	zz.Observe("spanId", rec.SpanId)
	zz.Assert(index == "idx", "otlplogs/index-unchanged")
	zz.Assert(rec.TimeUnixNano == lr.TimeUnixNano && rec.ObservedTimeUnixNano == lr.ObservedTimeUnixNano, "otlplogs/event-time-carried-over")
	zz.Assert(rec.TraceId == wantTrace, "otlplogs/trace-id-intact")
	zz.Assert(rec.SpanId == wantSpan, "otlplogs/span-id-intact")
	n := 0
	if attrOther {
		n++
		zz.Assert(rec.Attributes["k"] == "v", "otlplogs/attributes-kept")
	}
	if attrTrace {
		n++
		zz.Assert(rec.Attributes["trace_id"] == "tt", "otlplogs/attributes-kept")
	}
	if attrSpan {
		n++
		zz.Assert(rec.Attributes["span_id"] == "ss", "otlplogs/attributes-kept")
	}
	zz.Assert(len(rec.Attributes) == n, "otlplogs/no-attribute-invented")
	zz.Assert(rec.Body == "hello", "otlplogs/body-kept")
}
