//go:build verif

package otlp

// C16 / C12 (OTLP traces): a span's identifiers, name, service, times and status reach the
// stored event as sent - whatever attribute keys the span carries - and its duration is
// end - start.
//
//verif:pkg pkg/otlp
//verif:entry VerifC16OtlpSpanRecord conf=0 replay=no
//verif:stub-always encoding/json.Marshal verifC16jMarshal
//verif:stub-always (go.opentelemetry.io/proto/otlp/trace/v1.Span_SpanKind).String verifC16KindString
//verif:stub-always (go.opentelemetry.io/proto/otlp/trace/v1.Status_StatusCode).String verifC16StatusString
//verif:bound one OTLP span with free one-byte trace id, span id and parent span id, free 32-bit start time and duration, a status of unset / ok / error or none, and 0..2 string attributes whose keys are drawn from {trace_id, span_id, parent_span_id, name, service, status, duration, start_time, k}; spanToJson
//verif:outside events and links (local marshalling types; link ids were checked by a native test when fix e188247 was made), protobuf decoding, the ingest path after the record is built, spans whose end precedes their start
//verif:assume json.Marshal is a capturing stub (the record map is inspected instead of its JSON text); the generated enum String methods are replaced by their contract (the enum's name)

import (
	tracepb "go.opentelemetry.io/proto/otlp/trace/v1"

	zz "github.com/siglens/siglens/pkg/zzverif"
)

var verifC16Record map[string]interface{}

// the generated String methods go through protobuf's reflection tables (package init); their contract is the enum's name
func verifC16KindString(k tracepb.Span_SpanKind) string { return "SPAN_KIND_UNSPECIFIED" }
func verifC16StatusString(c tracepb.Status_StatusCode) string {
	switch c {
	case tracepb.Status_STATUS_CODE_OK:
		return "STATUS_CODE_OK"
	case tracepb.Status_STATUS_CODE_ERROR:
		return "STATUS_CODE_ERROR"
	}
	return "STATUS_CODE_UNSET"
}

func verifC16jMarshal(v any) ([]byte, error) {
	if m, ok := v.(map[string]interface{}); ok {
		verifC16Record = m
	}
	return []byte("null"), nil
}

func VerifC16OtlpSpanRecord() {
	verifC16Record = nil
	tid, sid, pid := zz.U8("traceId"), zz.U8("spanId"), zz.U8("parentSpanId")
	start := uint64(zz.U32("start"))
	dur := uint64(zz.U32("duration"))
	span := &tracepb.Span{TraceId: []byte{tid}, SpanId: []byte{sid}, ParentSpanId: []byte{pid}, Name: "op",
		StartTimeUnixNano: start, EndTimeUnixNano: start + dur}
	wantStatus := "Unknown"
	switch zz.Choice("status", 4) {
	case 1:
		span.Status = &tracepb.Status{Code: tracepb.Status_STATUS_CODE_UNSET}
		wantStatus = "STATUS_CODE_UNSET"
	case 2:
		span.Status = &tracepb.Status{Code: tracepb.Status_STATUS_CODE_OK}
		wantStatus = "STATUS_CODE_OK"
	case 3:
		span.Status = &tracepb.Status{Code: tracepb.Status_STATUS_CODE_ERROR}
		wantStatus = "STATUS_CODE_ERROR"
	}
	keys := []string{"trace_id", "span_id", "parent_span_id", "name", "service", "status", "duration", "start_time", "k"}
	na := zz.Choice("attributes", 3)
	hasK := false
	for i := 0; i < na; i++ {
		k := keys[zz.Choice(zz.Name("attributeKey", i), len(keys))]
		if k == "k" {
			hasK = true
		}
		span.Attributes = append(span.Attributes, verifC16Attr(k, "from-attribute"))
	}
	_, err := spanToJson(span, "svc")
	zz.Assert(err == nil && verifC16Record != nil, "otlpspan/record-built")
	if verifC16Record == nil {
		return
	}
	r := verifC16Record
	zz.Assert(r["trace_id"] == verifC16Hex(tid), "otlpspan/trace-id-intact")
	zz.Assert(r["span_id"] == verifC16Hex(sid), "otlpspan/span-id-intact")
	zz.Assert(r["parent_span_id"] == verifC16Hex(pid), "otlpspan/parent-span-id-intact")
	zz.Assert(r["name"] == "op" && r["service"] == "svc", "otlpspan/name-and-service-intact")
	zz.Assert(r["status"] == wantStatus, "otlpspan/status-intact")
	st, ok1 := r["start_time"].(uint64)
	en, ok2 := r["end_time"].(uint64)
	du, ok3 := r["duration"].(uint64)
	zz.Assert(ok1 && ok2 && ok3 && st == start && en == start+dur && du == dur, "otlpspan/times-and-duration-intact")
	if hasK {
		zz.Assert(r["k"] == "from-attribute", "otlpspan/other-attributes-kept")
	}
}
