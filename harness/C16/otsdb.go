//go:build verif

package metrics

// C16 (OpenTSDB put): a datapoint's timestamp is stored in seconds whatever unit and JSON
// form it was sent in, and its metric name, value and tags arrive unchanged.
//
//verif:pkg pkg/segment/writer/metrics
//verif:entry VerifC16OtsdbDatapoint conf=4
//verif:bound one OpenTSDB put document {metric, timestamp, value, tags{host}} with the timestamp written as seconds or milliseconds, as a number, a decimal-point number or a string (six concrete forms of the instant 1700000000), metric name "cpu.load" or "cpu.NaNs", value 42.5; ExtractOTSDBPayload with the real jsonparser
//verif:outside other instants (jsonparser/strconv run on concrete text here; the unit rule itself is IsTimeInMilli, covered symbolically by VerifC16ExtractTimeStamp's bands), date-time strings (time.Parse), the Prometheus remote-write and OTLP-metrics decoders (protobuf)

import (
	zz "github.com/siglens/siglens/pkg/zzverif"
)

func VerifC16OtsdbDatapoint() {
	tsForms := []string{`1700000000`, `1700000000123`, `1700000000.5`, `"1700000000"`, `"1700000000123"`, `1700000000123.0`}
	ts := tsForms[zz.Choice("timestampForm", len(tsForms))]
	name := []string{"cpu.load", "cpu.NaNs"}[zz.Choice("metricName", 2)]
	doc := []byte(`{"metric":"` + name + `","timestamp":` + ts + `,"value":42.5,"tags":{"host":"h1"}}`)
	tags := GetTagsHolder()
	mName, val, gotTs, err := ExtractOTSDBPayload(doc, tags)
	zz.Assert(err == nil, "otsdb/datapoint-accepted")
	if err != nil {
		return
	}
	zz.Assert(gotTs == 1700000000, "otsdb/timestamp-stored-in-seconds-whatever-the-unit-and-form")
	zz.Assert(val == 42.5, "otsdb/value-intact")
	if name == "cpu.load" {
		zz.Assert(string(mName) == name, "otsdb/metric-name-intact")
	} else {
		zz.Assert(string(mName) == name, "otsdb/metric-name-containing-NaN-intact")
	}
	zz.Assert(tags.idx == 1 && tags.entries[0].tagKey == "host" && string(tags.entries[0].tagValue) == "h1", "otsdb/tags-intact")
}
