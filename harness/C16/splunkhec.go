//go:build verif

package splunk

// C16 (Splunk HEC): an event sent through the HTTP Event Collector carries its own time in
// "time" (epoch seconds, possibly fractional, number or string). The stored event time must
// be that time; the arrival time is used only when the event has none.
//
//verif:pkg pkg/integrations/splunk
//verif:entry VerifC16SplunkHecEventTime conf=0 replay=no
//verif:stub-always encoding/json.Marshal verifC16sMarshal
//verif:stub-always github.com/siglens/siglens/pkg/virtualtable.IsVirtualTablePresent verifC16sTablePresent
//verif:stub-always github.com/siglens/siglens/pkg/config.GetTimeStampKey verifC16sTsKey
//verif:bound one HEC record {index, event, time} with time drawn from {1433188255 (number), 1433188255.253 (number), "1433188255.5" (string), 1433188255253 (number, already milliseconds), absent}, optionally also carrying an explicit field under the configured timestamp key; getPLE -> GetNewPLE (real jsonparser / ExtractTimeStamp / ParseRawJsonObject on the rendered document)
//verif:outside HTTP decoding of the request (ExtractSeriesOfJsonObjects), other time values (the conversion is strconv/float rounding on concrete numbers here), index creation, the ingest path after the parsed event (VerifC16EventTimeSurvivesIngest)
//verif:assume json.Marshal is a contract stub that renders exactly this record shape; the index is reported as existing; the timestamp key is "timestamp"

import (
	"errors"
	"strconv"

	"github.com/siglens/siglens/pkg/config"
	"github.com/siglens/siglens/pkg/utils"
	zz "github.com/siglens/siglens/pkg/zzverif"
)

func verifC16sTsKey() string { return "timestamp" }

func verifC16sTablePresent(tableName *string, orgid int64) bool { return true }

func verifC16sMarshal(v any) ([]byte, error) {
	rec, ok := v.(map[string]interface{})
	if !ok {
		return nil, errors.New("verif: unexpected json.Marshal argument")
	}
	out := []byte(`{"event":"hello","index":"main"`)
	for _, k := range []string{"time", "timestamp"} {
		val, ok := rec[k]
		if !ok {
			continue
		}
		out = append(out, ',', '"')
		out = append(out, k...)
		out = append(out, '"', ':')
		switch x := val.(type) {
		case float64:
			out = strconv.AppendFloat(out, x, 'f', -1, 64)
		case uint64:
			out = strconv.AppendUint(out, x, 10)
		case string:
			out = append(out, '"')
			out = append(out, x...)
			out = append(out, '"')
		default:
			return nil, errors.New("verif: unexpected value type")
		}
	}
	return append(out, '}'), nil
}

func VerifC16SplunkHecEventTime() {
	tsKey := config.GetTimeStampKey()
	zz.Assume(tsKey == "timestamp")
	rec := map[string]interface{}{"index": "main", "event": "hello"}
	var wantMs uint64
	switch zz.Choice("hecTime", 5) {
	case 0:
		rec["time"] = float64(1433188255)
		wantMs = 1433188255000
	case 1:
		rec["time"] = 1433188255.253
		wantMs = 1433188255253
	case 2:
		rec["time"] = "1433188255.5"
		wantMs = 1433188255500
	case 3:
		rec["time"] = float64(1433188255253)
		wantMs = 1433188255253
	case 4:
		// no time of its own: the arrival time is used
	}
	if zz.Choice("explicitTimestampField", 2) == 1 {
		rec["timestamp"] = uint64(1500000000123)
		wantMs = 1500000000123
	}
	var buf [utils.UnescapeStackBufSize]byte
	err, _, ple := getPLE(rec, 0, &tsKey, buf[:])
	zz.Assert(err == nil && ple != nil, "hec/record-accepted")
	if err != nil || ple == nil {
		return
	}
	if wantMs != 0 {
		zz.Assert(ple.GetTimestamp() == wantMs, "hec/stored-event-time-is-the-time-the-event-carried")
	} else {
		zz.Assert(ple.GetTimestamp() != 0, "hec/arrival-time-when-the-event-has-none")
	}
}
