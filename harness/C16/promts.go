//go:build verif

package writer

// C16 (Prometheus remote write): a sample's millisecond timestamp is stored as that instant
// in seconds; second and nanosecond inputs are recognised by their magnitude.
//
//verif:pkg pkg/integrations/prometheus/ingest
//verif:entry VerifC16PrometheusSampleTime conf=8
//verif:bound parseTimestamp on every timestamp in the seconds band [1e9, 4e9], the millisecond band [1e12, 4e12] and the nanosecond band [1e18, 4e18] (instants up to the year 2096, which fit the 32-bit seconds the metrics store keeps)
//verif:outside snappy/protobuf decoding of the write request, label handling (TSID: VerifC08SeriesIdentity), instants after 2106 (do not fit 32-bit seconds)

import (
	zz "github.com/siglens/siglens/pkg/zzverif"
)

func VerifC16PrometheusSampleTime() {
	switch zz.Choice("unit", 3) {
	case 0:
		v := int64(zz.U64Range("seconds", 1_000_000_000, 4_000_000_000))
		got := parseTimestamp(v)
		zz.Observe("got", got)
		zz.Assert(uint64(got) == uint64(v), "promts/seconds-kept")
	case 1:
		v := int64(zz.U64Range("millis", 1_000_000_000_000, 4_000_000_000_000))
		got := parseTimestamp(v)
		zz.Observe("got", got)
		zz.Assert(uint64(got) == uint64(v)/1000, "promts/milliseconds-to-seconds")
	case 2:
		v := int64(zz.U64Range("nanos", 1_000_000_000_000_000_000, 4_000_000_000_000_000_000))
		got := parseTimestamp(v)
		zz.Observe("got", got)
		zz.Assert(uint64(got) == uint64(v)/1_000_000_000, "promts/nanoseconds-to-seconds")
	}
}
