//go:build verif

package writer

// C02-H1: numeric comparison in the search clause is by value, independent of
// how the stored number (int64 / float64 column encoding) or the literal
// (negative integer, non-negative integer, decimal) was written.
//
//verif:pkg pkg/segment/writer
//verif:entry VerifC02NumericCompare conf=8
//verif:entry VerifC02StringEquals conf=8
//verif:stub github.com/siglens/siglens/pkg/segment/utils.GetNumberTypeAndVal verifC02GetNumberTypeAndVal
//verif:stub github.com/siglens/siglens/pkg/common/dtypeutils.ConvertToFloat verifC02ConvertToFloat
//verif:bound stored value: any int64 with |v| <= 2^53 or any finite float64 with |v| <= 2^53 (the two numeric encodings the log writer produces); literal: any integer with |v| <= 2^53 or any finite decimal with |v| <= 2^53; all six operators
//verif:bound string equality: stored and literal strings of 0..3 bytes of 7-bit ASCII, case-sensitive and case-insensitive, = and !=
//verif:outside wildcard, regex and free-text term matching (query-derived regexp patterns), the SPL grammar, the `where` evaluator, numeric strings, numbers beyond 2^53
//verif:assume under the engine GetNumberTypeAndVal is a contract stub: non-negative integers are reported as unsigned, negative ones as signed, decimals as float64 (0 as uint8) — exactly what the real strconv-based function returns; natively the real function parses the decimal rendering
//verif:assume for = and != the engine's documented 1e-4 tolerance is accepted: only 'exactly equal => =' and '|a-b| >= 1e-3 => not =' are asserted; ordering operators must be exact

import (
	"encoding/json"
	"errors"
	"math"
	"strconv"

	sutils "github.com/siglens/siglens/pkg/segment/utils"
	zz "github.com/siglens/siglens/pkg/zzverif"
)

var verifC02LitIsFloat bool
var verifC02LitInt int64
var verifC02LitFlt float64

func verifC02GetNumberTypeAndVal(numstr string) (sutils.SS_IntUintFloatTypes, int64, uint64, float64) {
	if verifC02LitIsFloat {
		if verifC02LitFlt == 0 {
			return sutils.SS_UINT8, 0, 0, 0
		}
		return sutils.SS_FLOAT64, 0, 0, verifC02LitFlt
	}
	if verifC02LitInt < 0 {
		return sutils.SS_INT64, verifC02LitInt, 0, 0
	}
	return sutils.SS_UINT64, 0, uint64(verifC02LitInt), 0
}

// dtypeutils.ConvertToFloat formats its argument and re-parses it with strconv;
// its contract is the correctly rounded conversion.
func verifC02ConvertToFloat(exp interface{}, bytes int) (float64, error) {
	switch v := exp.(type) {
	case uint64:
		return float64(v), nil
	case int64:
		return float64(v), nil
	case float64:
		return v, nil
	}
	return 0, errors.New("verif: unexpected ConvertToFloat argument")
}

func verifC02Abs(x float64) float64 {
	if x < 0 {
		return -x
	}
	return x
}

func VerifC02NumericCompare() {
	const lim = 1 << 53
	// ---- stored value
	recIsFloat := zz.Choice("recIsFloat", 2) == 1
	rec := make([]byte, 9)
	var recVal float64
	var bits uint64
	if recIsFloat {
		f := zz.F64("recFloat")
		zz.Assume(f == f && verifC02Abs(f) <= lim)
		recVal = f
		rec[0] = sutils.VALTYPE_ENC_FLOAT64[0]
		bits = math.Float64bits(f)
	} else {
		v := zz.I64("recInt")
		zz.Assume(v >= -lim && v <= lim)
		recVal = float64(v)
		rec[0] = sutils.VALTYPE_ENC_INT64[0]
		bits = uint64(v)
	}
	for i := 0; i < 8; i++ {
		rec[1+i] = byte(bits >> (8 * uint(i)))
	}
	// ---- literal
	litIsFloat := zz.Choice("litIsFloat", 2) == 1
	var litVal float64
	var litText string
	if litIsFloat {
		f := zz.F64("litFloat")
		zz.Assume(f == f && verifC02Abs(f) <= lim)
		litVal = f
		verifC02LitIsFloat, verifC02LitFlt = true, f
		if zz.Symbolic() {
			litText = "0.5"
		} else {
			litText = strconv.FormatFloat(f, 'f', -1, 64)
			if f == float64(int64(f)) {
				litText = strconv.FormatFloat(f, 'f', 1, 64) // keep it a decimal literal
			}
		}
	} else {
		v := zz.I64("litInt")
		zz.Assume(v >= -lim && v <= lim)
		litVal = float64(v)
		verifC02LitIsFloat, verifC02LitInt = false, v
		if zz.Symbolic() {
			litText = "5"
		} else {
			litText = strconv.FormatInt(v, 10)
		}
	}
	qv, err := sutils.CreateDtypeEnclosure(json.Number(litText), 0)
	zz.Assert(err == nil, "numeric/literal-accepted")
	ops := []sutils.FilterOperator{sutils.Equals, sutils.NotEquals, sutils.LessThan, sutils.LessThanOrEqualTo, sutils.GreaterThan, sutils.GreaterThanOrEqualTo}
	op := ops[zz.Choice("op", len(ops))]
	var holder sutils.DtypeEnclosure
	got, err := ApplySearchToExpressionFilterSimpleCsg(qv, op, rec, false, &holder, false)
	zz.Observe("got", got)
	zz.Assert(err == nil, "numeric/no-error")
	mixed := !recIsFloat && litIsFloat
	label := func(s string) string {
		if mixed {
			return "numeric/int-column-decimal-literal/" + s
		}
		return "numeric/" + s
	}
	diff := verifC02Abs(recVal - litVal)
	switch op {
	case sutils.Equals:
		zz.Assert(recVal != litVal || got, label("equal-values-match-="))
		zz.Assert(diff < 0.001 || !got, label("different-values-do-not-match-="))
	case sutils.NotEquals:
		zz.Assert(recVal != litVal || !got, label("equal-values-do-not-match-!="))
		zz.Assert(diff < 0.001 || got, label("different-values-match-!="))
	case sutils.LessThan:
		zz.Assert(got == (recVal < litVal), label("less-than-by-value"))
	case sutils.LessThanOrEqualTo:
		zz.Assert(got == (recVal <= litVal), label("less-or-equal-by-value"))
	case sutils.GreaterThan:
		zz.Assert(got == (recVal > litVal), label("greater-than-by-value"))
	case sutils.GreaterThanOrEqualTo:
		zz.Assert(got == (recVal >= litVal), label("greater-or-equal-by-value"))
	}
}

func VerifC02StringEquals() {
	n := zz.Choice("n", 4)
	m := zz.Choice("m", 4)
	stored := zz.Bytes("stored", n)
	lit := zz.Bytes("lit", m)
	for _, b := range stored {
		zz.Assume(b < 0x80)
	}
	for _, b := range lit {
		zz.Assume(b < 0x80 && b != '*')
	}
	rec := make([]byte, 0, 3+n)
	rec = append(rec, sutils.VALTYPE_ENC_SMALL_STRING[0], byte(n), byte(n>>8))
	rec = append(rec, stored...)
	ci := zz.Choice("caseInsensitive", 2) == 1
	qv, err := sutils.CreateDtypeEnclosure(string(lit), 0)
	zz.Assert(err == nil, "string/literal-accepted")
	if ci {
		// the query layer lower-cases the literal for case-insensitive searches
		low := make([]byte, len(lit))
		for i, b := range lit {
			if 'A' <= b && b <= 'Z' {
				b += 32
			}
			low[i] = b
		}
		qv.StringVal = string(low)
	}
	qv.StringValBytes = []byte(qv.StringVal)
	neq := zz.Choice("neq", 2) == 1
	op := sutils.Equals
	if neq {
		op = sutils.NotEquals
	}
	var holder sutils.DtypeEnclosure
	got, err := ApplySearchToExpressionFilterSimpleCsg(qv, op, rec, false, &holder, ci)
	zz.Observe("got", got)
	zz.Assert(err == nil, "string/no-error")
	same := n == m
	for i := 0; same && i < n; i++ {
		a, b := stored[i], lit[i]
		if ci {
			if 'A' <= a && a <= 'Z' {
				a += 32
			}
			if 'A' <= b && b <= 'Z' {
				b += 32
			}
		}
		if a != b {
			same = false
		}
	}
	zz.Assert(got == (same != neq), "string/equality-by-content")
}
