//go:build verif

package metautils

// C02 (integer comparisons, block level): a comparison in the search clause must not lose
// events because their block was skipped: whenever some stored integer of a block satisfies
// `col op K` for the integer literal K, the range micro-index keeps the block.
//
//verif:pkg pkg/segment/query/metadata/metautils
//verif:entry VerifC02IntegerComparisonKeepsItsBlocks conf=8
//verif:stub github.com/siglens/siglens/pkg/common/dtypeutils.ConvertToInt verifC02bConvertToInt
//verif:stub github.com/siglens/siglens/pkg/common/dtypeutils.ConvertToUInt verifC02bConvertToUInt
//verif:stub github.com/siglens/siglens/pkg/common/dtypeutils.ConvertToFloat verifC02bConvertToFloat
//verif:bound a signed or unsigned integer range index with any 64-bit bounds min <= max, any stored value inside it, any integer literal (64-bit signed), all six operators; pure integer reasoning (the decimal-literal and float-index cases are in VerifC03RangeIndexKeepsMatchingBlocks)
//verif:outside decimal literals and float indexes (C03), bloom and time pruning, the record-level comparison (VerifC02NumericCompare)
//verif:assume the literal reaches the index check as text re-parsed by dtypeutils.ConvertTo{Int,UInt,Float}; under the engine these are contract stubs returning the literal (the unsigned parse fails for a negative literal)

import (
	"errors"
	"strconv"

	"github.com/siglens/siglens/pkg/segment/structs"
	sutils "github.com/siglens/siglens/pkg/segment/utils"
	zz "github.com/siglens/siglens/pkg/zzverif"
)

var verifC02bLit int64

func verifC02bConvertToInt(exp interface{}, bytes int) (int64, error) { return verifC02bLit, nil }
func verifC02bConvertToUInt(exp interface{}, bytes int) (uint64, error) {
	if verifC02bLit < 0 {
		return 0, errors.New("strconv.ParseUint: invalid syntax")
	}
	return uint64(verifC02bLit), nil
}
func verifC02bConvertToFloat(exp interface{}, bytes int) (float64, error) {
	return float64(verifC02bLit), nil
}

func VerifC02IntegerComparisonKeepsItsBlocks() {
	ri := &structs.Numbers{}
	lit := zz.I64("literal")
	verifC02bLit = lit
	litText := "literal"
	if !zz.Symbolic() {
		litText = strconv.FormatInt(lit, 10)
	}
	ops := []sutils.FilterOperator{sutils.Equals, sutils.NotEquals, sutils.LessThan, sutils.LessThanOrEqualTo, sutils.GreaterThan, sutils.GreaterThanOrEqualTo}
	op := ops[zz.Choice("op", len(ops))]
	var lt, eq bool // stored value < literal, == literal (by value)
	if zz.Choice("unsignedIndex", 2) == 1 {
		ri.NumType = sutils.RNT_UNSIGNED_INT
		ri.Min_uint64, ri.Max_uint64 = zz.U64("min"), zz.U64("max")
		v := zz.U64("value")
		zz.Assume(ri.Min_uint64 <= v && v <= ri.Max_uint64)
		lt = lit >= 0 && v < uint64(lit)
		eq = lit >= 0 && v == uint64(lit)
	} else {
		ri.NumType = sutils.RNT_SIGNED_INT
		ri.Min_int64, ri.Max_int64 = zz.I64("min"), zz.I64("max")
		v := zz.I64("value")
		zz.Assume(ri.Min_int64 <= v && v <= ri.Max_int64)
		lt = v < lit
		eq = v == lit
	}
	kept := CheckRangeIndex(map[string]string{"col": litText}, map[string]*structs.Numbers{"col": ri}, op, 0)
	zz.Observe("keptBlock", kept)
	var matches bool
	switch op {
	case sutils.Equals:
		matches = eq
	case sutils.NotEquals:
		matches = !eq
	case sutils.LessThan:
		matches = lt
	case sutils.LessThanOrEqualTo:
		matches = lt || eq
	case sutils.GreaterThan:
		matches = !lt && !eq
	case sutils.GreaterThanOrEqualTo:
		matches = !lt
	}
	zz.Assert(!matches || kept, "blockskip/block-holding-a-matching-integer-is-kept")
}
