//go:build verif

package search

// C02-H4: AND / OR / NOT combine per-record match sets as intersection / union /
// complement, for every nesting the search-node tree allows.
//
//verif:pkg pkg/segment/search
//verif:entry VerifC02BooleanCombination conf=0 replay=no
//verif:stub-always github.com/siglens/siglens/pkg/segment/search.RawSearchSingleQuery verifC02RawSearchSingleQuery
//verif:stub-always (*github.com/siglens/siglens/pkg/segment/results/segresults.SearchResults).ShouldSearchRange verifC02ShouldSearchRange
//verif:bound one block of 1..2 (quick) / 1..3 (thorough) records; up to four leaf queries whose per-record truth values are free bits; nine search-node shapes: AND of two, OR of two, AND with NOT, AND+OR+NOT at one level, AND with a nested OR node, OR with a nested AND node, NOT of a nested OR node, OR with a nested AND-NOT node, NOT alone; executeRawSearchOnNode, applyRawSearchToConditions, mergeSegmentSearchStatus, updateMatchedRecords, the record iterator and the bitset operations are the real code
//verif:outside the evaluation of a single leaf query on a record (C02 NumericCompare/StringEquals), column readers and files, several blocks or segments, time filtering inside a block, the parallel block managers
//verif:assume RawSearchSingleQuery (opens column files and fans out to block managers) is replaced by its bookkeeping: for every block, reset the block helper, take the record iterator for the operator, add every record the iterator offers and the leaf query is true for, and update the segment search status with the operator - the steps filterBlockRequestFromQuery performs

import (
	dtu "github.com/siglens/siglens/pkg/common/dtypeutils"
	"github.com/siglens/siglens/pkg/segment/results/segresults"
	"github.com/siglens/siglens/pkg/segment/structs"
	sutils "github.com/siglens/siglens/pkg/segment/utils"
	zz "github.com/siglens/siglens/pkg/zzverif"
)

var verifC02Truth [4]uint8

func verifC02ShouldSearchRange(sr *segresults.SearchResults, lowTs, highTs uint64) bool { return true }

func verifC02RawSearchSingleQuery(query *structs.SearchQuery, searchReq *structs.SegmentSearchRequest, segmentSearch *SegmentSearchStatus,
	allBlockSearchHelpers []*structs.BlockSearchHelper, op sutils.LogicalOperator, queryMetrics *structs.QueryProcessingMetrics, qid uint64,
	allSearchResults *segresults.SearchResults, nodeRes *structs.NodeResult, queryRange *dtu.TimeRange) *SegmentSearchStatus {
	truth := verifC02Truth[int(query.QueryInfo.ColName[1]-'0')]
	blockHelper := allBlockSearchHelpers[0]
	for blkNum := range segmentSearch.AllBlockStatus {
		blockHelper.ResetBlockHelper()
		recIT, err := segmentSearch.GetRecordIteratorForBlock(op, blkNum)
		zz.Assume(err == nil)
		for i := uint(0); i < uint(recIT.AllRecLen); i++ {
			if !recIT.ShouldProcessRecord(i) {
				continue
			}
			if (truth>>i)&1 == 1 {
				blockHelper.AddMatchedRecord(i)
			}
		}
		zz.Assume(segmentSearch.updateMatchedRecords(blkNum, blockHelper.GetAllMatchedRecords(), op) == nil)
	}
	return segmentSearch
}

func verifC02Leaf(k int) *structs.SearchQuery {
	return &structs.SearchQuery{QueryInfo: &structs.QueryInfo{ColName: zz.Name("q", k)}}
}

func verifC02Cond(nodes []*structs.SearchNode, leaves ...int) *structs.SearchCondition {
	c := &structs.SearchCondition{SearchNode: nodes}
	for _, k := range leaves {
		c.SearchQueries = append(c.SearchQueries, verifC02Leaf(k))
	}
	return c
}

func VerifC02BooleanCombination() {
	maxN := 2
	if zz.Tier() > 0 {
		maxN = 3
	}
	n := 1 + zz.Choice("records", maxN)
	for k := range verifC02Truth {
		verifC02Truth[k] = zz.U8(zz.Name("truthOfQuery", k))
	}
	q := func(k int, i int) bool { return (verifC02Truth[k]>>uint(i))&1 == 1 }
	shape := zz.Choice("shape", 9)
	var node *structs.SearchNode
	var want func(i int) bool
	switch shape {
	case 0:
		node = &structs.SearchNode{AndSearchConditions: verifC02Cond(nil, 0, 1)}
		want = func(i int) bool { return q(0, i) && q(1, i) }
	case 1:
		node = &structs.SearchNode{OrSearchConditions: verifC02Cond(nil, 0, 1)}
		want = func(i int) bool { return q(0, i) || q(1, i) }
	case 2:
		node = &structs.SearchNode{AndSearchConditions: verifC02Cond(nil, 0), ExclusionSearchConditions: verifC02Cond(nil, 1)}
		want = func(i int) bool { return q(0, i) && !q(1, i) }
	case 3:
		node = &structs.SearchNode{AndSearchConditions: verifC02Cond(nil, 0), OrSearchConditions: verifC02Cond(nil, 1, 2),
			ExclusionSearchConditions: verifC02Cond(nil, 3)}
		want = func(i int) bool { return q(0, i) && (q(1, i) || q(2, i)) && !q(3, i) }
	case 4:
		inner := &structs.SearchNode{OrSearchConditions: verifC02Cond(nil, 1, 2)}
		node = &structs.SearchNode{AndSearchConditions: verifC02Cond([]*structs.SearchNode{inner}, 0)}
		want = func(i int) bool { return q(0, i) && (q(1, i) || q(2, i)) }
	case 5:
		inner := &structs.SearchNode{AndSearchConditions: verifC02Cond(nil, 1, 2)}
		node = &structs.SearchNode{OrSearchConditions: verifC02Cond([]*structs.SearchNode{inner}, 0)}
		want = func(i int) bool { return q(0, i) || (q(1, i) && q(2, i)) }
	case 6:
		inner := &structs.SearchNode{OrSearchConditions: verifC02Cond(nil, 1, 2)}
		node = &structs.SearchNode{AndSearchConditions: verifC02Cond(nil, 0),
			ExclusionSearchConditions: verifC02Cond([]*structs.SearchNode{inner})}
		want = func(i int) bool { return q(0, i) && !(q(1, i) || q(2, i)) }
	case 8:
		node = &structs.SearchNode{ExclusionSearchConditions: verifC02Cond(nil, 0)}
		want = func(i int) bool { return !q(0, i) }
	default:
		inner := &structs.SearchNode{AndSearchConditions: verifC02Cond(nil, 1), ExclusionSearchConditions: verifC02Cond(nil, 2)}
		node = &structs.SearchNode{OrSearchConditions: verifC02Cond([]*structs.SearchNode{inner}, 0)}
		want = func(i int) bool { return q(0, i) || (q(1, i) && !q(2, i)) }
	}

	blkSum := []*structs.BlockSummary{{LowTs: 10, HighTs: 20, RecCount: uint16(n)}}
	searchReq := &structs.SegmentSearchRequest{AllBlocksToSearch: map[uint16]struct{}{0: {}}}
	tr := &dtu.TimeRange{StartEpochMs: 0, EndEpochMs: 100}
	helpers := []*structs.BlockSearchHelper{structs.InitBlockSearchHelper()}
	res := executeRawSearchOnNode(node, searchReq, helpers, &structs.QueryProcessingMetrics{}, 0, &segresults.SearchResults{}, &structs.NodeResult{}, blkSum, tr)
	blk, ok := res.AllBlockStatus[0]
	zz.Assert(ok, "boolean/block-present")
	if !ok {
		return
	}
	for i := 0; i < n; i++ {
		zz.Assert(blk.allRecords.DoesRecordMatch(uint(i)) == want(i), "boolean/record-selected-iff-the-expression-holds")
	}
	for i := n; i < n+3; i++ {
		zz.Assert(!blk.allRecords.DoesRecordMatch(uint(i)), "boolean/no-record-beyond-the-block")
	}
}
