//go:build verif

package structs

// C02-H4b: joining the per-segment search requests of the two operands of AND / OR
// keeps every block and every candidate column either operand needs.
//
//verif:pkg pkg/segment/structs
//verif:entry VerifC02JoinRequest conf=6
//verif:bound two blocks and two columns; each operand's request lists any subset of the blocks and, for each listed block, any subset of the columns as candidates (the columns that passed its micro-index check); AND and OR
//verif:outside how the candidate columns are computed, more than two operands (JoinRequest is applied pairwise)

import (
	sutils "github.com/siglens/siglens/pkg/segment/utils"
	zz "github.com/siglens/siglens/pkg/zzverif"
)

func verifC02Request(side string, has *[2]bool, cols *[2][2]bool) *SegmentSearchRequest {
	r := &SegmentSearchRequest{AllBlocksToSearch: map[uint16]struct{}{}, CmiPassedCnames: map[uint16]map[string]bool{},
		AllPossibleColumns: map[string]bool{}}
	names := [2]string{"x", "y"}
	for b := 0; b < 2; b++ {
		has[b] = zz.Choice(side+zz.Name("HasBlock", b), 2) == 1
		if !has[b] {
			continue
		}
		r.AllBlocksToSearch[uint16(b)] = struct{}{}
		r.CmiPassedCnames[uint16(b)] = map[string]bool{}
		for c := 0; c < 2; c++ {
			cols[b][c] = zz.Choice(side+zz.Name("Block", b)+zz.Name("Col", c), 2) == 1
			if cols[b][c] {
				r.CmiPassedCnames[uint16(b)][names[c]] = true
			}
		}
	}
	return r
}

func VerifC02JoinRequest() {
	var lHas, rHas [2]bool
	var lCols, rCols [2][2]bool
	left := verifC02Request("left", &lHas, &lCols)
	right := verifC02Request("right", &rHas, &rCols)
	isAnd := zz.Choice("and", 2) == 1
	op := sutils.Or
	if isAnd {
		op = sutils.And
	}
	left.JoinRequest(right, op)
	names := [2]string{"x", "y"}
	for b := 0; b < 2; b++ {
		_, got := left.AllBlocksToSearch[uint16(b)]
		zz.Observe(zz.Name("block", b), got)
		if isAnd {
			zz.Assert(got == (lHas[b] && rHas[b]), "join/and-searches-the-blocks-both-operands-need")
		} else {
			zz.Assert(got == (lHas[b] || rHas[b]), "join/or-searches-the-blocks-either-operand-needs")
		}
		if !got {
			continue
		}
		for c := 0; c < 2; c++ {
			have := left.CmiPassedCnames[uint16(b)][names[c]]
			zz.Observe(zz.Name("block", b)+zz.Name("col", c), have)
			zz.Assert(have == (lCols[b][c] || rCols[b][c]), "join/candidate-columns-of-both-operands-are-kept")
		}
	}
}
