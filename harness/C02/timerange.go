//go:build verif

package dtypeutils

// C02-H2 / C03-H2: time-range pruning never hides a record that the
// per-record time filter accepts.
//
//verif:pkg pkg/common/dtypeutils
//verif:entry VerifC02TimeRangeOverlap conf=6
//verif:entry VerifC02MetricsTimeRangeOverlap conf=6
//verif:bound time ranges: all 2^64 (logs) / 2^32 (metrics) values of Start, End, earliest, latest, t; no loop
//verif:assume block summaries satisfy earliest <= latest and queries Start <= End (writer and parser invariants)

import (
	zz "github.com/siglens/siglens/pkg/zzverif"
)

func VerifC02TimeRangeOverlap() {
	tr := &TimeRange{StartEpochMs: zz.U64("start"), EndEpochMs: zz.U64("end")}
	e, l := zz.U64("earliest"), zz.U64("latest")
	zz.Assume(e <= l)
	zz.Assume(tr.StartEpochMs <= tr.EndEpochMs)
	got := tr.CheckRangeOverLap(e, l)
	want := e <= tr.EndEpochMs && tr.StartEpochMs <= l
	zz.Observe("got", got)
	zz.Assert(got == want, "overlap-iff-intervals-intersect")

	// a record inside the block that passes the record-level time filter
	// implies the block is not pruned
	t := zz.U64("t")
	zz.Assume(e <= t && t <= l)
	in := tr.CheckInRange(t)
	zz.Observe("in", in)
	zz.Assert(in == (tr.StartEpochMs <= t && t <= tr.EndEpochMs), "inrange-exact")
	zz.Assert(!in || got, "record-in-range-implies-block-overlaps")

	enc := tr.AreTimesFullyEnclosed(e, l)
	zz.Assert(enc == (tr.StartEpochMs <= e && l <= tr.EndEpochMs), "enclosed-exact")
	zz.Assert(!enc || in, "enclosed-implies-every-record-in-range")
}

func VerifC02MetricsTimeRangeOverlap() {
	tr := &MetricsTimeRange{StartEpochSec: zz.U32("start"), EndEpochSec: zz.U32("end")}
	e, l := zz.U32("earliest"), zz.U32("latest")
	zz.Assume(e <= l)
	zz.Assume(tr.StartEpochSec <= tr.EndEpochSec)
	got := tr.CheckRangeOverLap(e, l)
	zz.Observe("got", got)
	zz.Assert(got == (e <= tr.EndEpochSec && tr.StartEpochSec <= l), "overlap-iff-intervals-intersect")
	t := zz.U32("t")
	zz.Assume(e <= t && t <= l)
	in := tr.CheckInRange(t)
	zz.Assert(!in || got, "record-in-range-implies-block-overlaps")
}
