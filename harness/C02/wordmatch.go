//go:build verif

package utils

// C02 (free-text terms and phrases): a term matches a text value iff it occurs in it as a
// whole run of words - some occurrence that starts at the beginning of the value or after a
// space and ends at the end of the value or before a space; occurrences inside longer tokens
// neither match nor hide a later whole-word occurrence.
//
//verif:pkg pkg/utils
//verif:entry VerifC02TermMatchesWholeWordsAnywhere conf=8
//verif:bound a value of 0..4 (quick) / 0..5 (thorough) bytes and a term of 1..2 bytes, both over the alphabet {a, b, A, ' '} with free contents (6-byte values with 3-byte terms were tried: 200 000 paths, 12 minutes); case-sensitive and case-insensitive; IsSubWordPresent
//verif:outside tokenisation on other separators than a single space (none is defined), wildcards and regular expressions, the bloom pre-filter (VerifC03BloomKeepsMatchingBlocks)
//verif:assume none

import (
	zz "github.com/siglens/siglens/pkg/zzverif"
)

func verifC02Fold(c byte, fold bool) byte {
	if fold && c >= 'A' && c <= 'Z' {
		return c + 32
	}
	return c
}

func VerifC02TermMatchesWholeWordsAnywhere() {
	maxH, maxN := 4, 2
	if zz.Tier() > 0 {
		maxH = 5
	}
	hl := zz.Choice("valueLen", maxH+1)
	nl := 1 + zz.Choice("termLen", maxN)
	hay := make([]byte, hl)
	for i := range hay {
		hay[i] = zz.ByteIn(zz.Name("v", i), "abA ")
	}
	needle := make([]byte, nl)
	for i := range needle {
		needle[i] = zz.ByteIn(zz.Name("t", i), "abA ")
	}
	fold := zz.Bool("caseInsensitive")
	got := IsSubWordPresent(hay, needle, fold)
	want := false
	for i := 0; i+nl <= hl; i++ {
		same := true
		for k := 0; k < nl; k++ {
			if verifC02Fold(hay[i+k], fold) != verifC02Fold(needle[k], fold) {
				same = false
			}
		}
		starts := i == 0 || hay[i-1] == ' '
		ends := i+nl == hl || hay[i+nl] == ' '
		if same && starts && ends {
			want = true
		}
	}
	zz.Observe("got", got)
	zz.Assert(got == want, "wordmatch/term-matches-iff-some-whole-word-occurrence-exists")
}
