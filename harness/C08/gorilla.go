//go:build verif

package compress

// C08: metric datapoints are stored and returned bit-exactly (Gorilla codec).
//
//verif:pkg pkg/segment/writer/metrics/compress
//verif:summarize-conc github.com/siglens/siglens/pkg/segment/writer/metrics/compress.leardingZeros
//verif:summarize-conc github.com/siglens/siglens/pkg/segment/writer/metrics/compress.trailingZeros
//verif:entry VerifC08ValueStepNewWindow conf=6
//verif:entry VerifC08ValueStepReuseWindow conf=6 conc=no
//verif:entry VerifC08ValueStep tier=deep conf=4
//verif:entry VerifC08TimestampStep conf=6
//verif:entry VerifC08Step tier=deep conf=6
//verif:entry VerifC08Stream2 conf=6
//verif:entry VerifC08Stream3 tier=deep conf=4
//verif:entry VerifC08BitIO conf=6
//verif:bound H1v/H1t (quick) the value half and the timestamp half of one step separately, each from an arbitrary valid codec state, all 2^64 values / all admissible timestamps; the combined step H1 runs in the thorough tier
//verif:bound quick tier of the reuse-window value step: window leading-zero count in {0,12,31,32,63}, every trailing-zero count; thorough: all 2080 windows
//verif:bound quick tier of H3: the second value differs from the first in its low 6 bits only (21 leading/trailing-zero window shapes); thorough: unrestricted (2080 shapes), 3 points
//verif:bound H1 one compress/decompress step from an arbitrary valid codec state: all 2^64 value bit patterns, all uint32 timestamps with |delta-of-delta| < 2^31, stream bit offset 0..7
//verif:bound H3 NewCompressor+Compress x2 (quick) / x3 (thorough) + finish, decoded through NewDecompressIterator: all values, timestamps header<=t0<=t1(<=t2) with t0-header < 2^14-1 and steps < 2^31
//verif:bound H2 writeBits(u,n)/readBits(n) for n in 0..64 at bit offset 0..7
//verif:outside tags-tree files, TSO/TSG files, rotation and restart; composition of steps into arbitrary histories is an induction argument (DESIGN.md C08), not a solver result
//verif:assume timestamps are second-resolution epoch values below 2^31 in non-decreasing order per series (int32 arithmetic in the codec), the first point lies less than 16383 s after the block header

import (
	"bytes"
	"math"

	zz "github.com/siglens/siglens/pkg/zzverif"
)

// codecInv is the representation invariant of the (compressor, decompressor) pair
// between two datapoints.
func verifC08Inv(c *Compressor, d *Decompressor) bool {
	if c.t == 0 || c.t < 0 {
		return false
	}
	if uint32(c.t) != d.t || uint32(c.tDelta) != d.delta || c.value != d.value {
		return false
	}
	if c.leadingZeros == math.MaxUint8 {
		return true // no window yet: the encoder must emit one before reusing it
	}
	if c.leadingZeros != d.leadingZeros || c.trailingZeros != d.trailingZeros {
		return false
	}
	return uint(c.leadingZeros)+uint(c.trailingZeros) <= 63
}

// The value half of one step (compressValue / decompressValue) from an arbitrary
// valid codec state.  mode 0: any pre-state window (thorough); 1: no window yet,
// so the encoder must emit one (all 2080 window shapes of the xor); 2: a window
// exists and is reused (all windows, all values that fit it).
func VerifC08ValueStep()            { verifC08ValueStep(0) }
func VerifC08ValueStepNewWindow()   { verifC08ValueStep(1) }
func VerifC08ValueStepReuseWindow() { verifC08ValueStep(2) }

func verifC08ValueStep(mode int) {
	var buf bytes.Buffer
	bw := newBitWriter(&buf)
	pad := 5
	if mode == 0 {
		pad = 5 * zz.Choice("pad", 2)
	}
	for k := 0; k < pad; k++ {
		_ = bw.writeBit(bit(zz.Bool(zz.Name("padbit", k))))
	}
	c := &Compressor{bw: bw, header: 1, t: 10, tDelta: 1}
	if mode == 2 {
		// the window is enumerated (2080 shapes) so that shift amounts are constants
		if zz.Tier() == 0 {
			lzs := []uint8{0, 12, 31, 32, 63}
			c.leadingZeros = lzs[zz.Choice("c.lz", len(lzs))]
		} else {
			c.leadingZeros = uint8(zz.Choice("c.lz", 64))
		}
		c.trailingZeros = uint8(zz.Choice("c.tz", 64-int(c.leadingZeros)))
	} else {
		c.leadingZeros = zz.U8("c.lz")
		c.trailingZeros = zz.U8("c.tz")
	}
	c.value = zz.U64("c.value")
	d := &Decompressor{header: 1, t: 10, delta: 1, value: c.value}
	d.leadingZeros, d.trailingZeros = zz.U8("d.lz"), zz.U8("d.tz")
	zz.Assume(verifC08Inv(c, d))
	vbits := zz.U64("v")
	switch mode {
	case 1:
		zz.Assume(c.leadingZeros == math.MaxUint8)
	case 2:
		xor := c.value ^ vbits
		zz.Assume(c.leadingZeros != math.MaxUint8)
		zz.Assume(xor == 0 || c.leadingZeros <= leardingZeros(xor))
		zz.Assume(xor == 0 || c.trailingZeros <= trailingZeros(xor))
	}
	_, err := c.compressValue(math.Float64frombits(vbits))
	zz.Assert(err == nil, "vstep/compress-no-error")
	tail := zz.U8("tail")
	zz.Assert(bw.writeBits(uint64(tail), 8) == nil && bw.flush(zero) == nil, "vstep/flush-no-error")
	d.br = newBitReader(bytes.NewReader(buf.Bytes()))
	for k := 0; k < pad; k++ {
		_, _ = d.br.readBit()
	}
	gv, derr := d.decompressValue()
	zz.Observe("gv", math.Float64bits(gv))
	zz.Assert(derr == nil, "vstep/decompress-no-error")
	zz.Assert(math.Float64bits(gv) == vbits, "vstep/value-bit-exact")
	zz.Assert(verifC08Inv(c, d), "vstep/invariant-preserved")
	nx, err := d.br.readBits(8)
	zz.Assert(err == nil && nx == uint64(tail), "vstep/reader-positioned-after-value")
}

// VerifC08TimestampStep: the timestamp half of one step.
func VerifC08TimestampStep() {
	var buf bytes.Buffer
	bw := newBitWriter(&buf)
	pad := zz.Choice("pad", 8)
	for k := 0; k < pad; k++ {
		_ = bw.writeBit(bit(zz.Bool(zz.Name("padbit", k))))
	}
	c := &Compressor{bw: bw, header: 1, leadingZeros: math.MaxUint8}
	c.t = zz.I32("c.t")
	c.tDelta = zz.I32("c.tDelta")
	d := &Decompressor{header: 1, t: uint32(c.t), delta: uint32(c.tDelta)}
	zz.Assume(verifC08Inv(c, d))
	zz.Assume(c.tDelta >= 0)
	t := zz.U32("t")
	zz.Assume(t < 1<<31 && int32(t) >= c.t)
	_, err := c.compressTimestamp(t)
	zz.Assert(err == nil, "tstep/compress-no-error")
	tail := zz.U8("tail")
	zz.Assert(bw.writeBits(uint64(tail), 8) == nil && bw.flush(zero) == nil, "tstep/flush-no-error")
	d.br = newBitReader(bytes.NewReader(buf.Bytes()))
	for k := 0; k < pad; k++ {
		_, _ = d.br.readBit()
	}
	gt, derr := d.decompressTimestamp()
	zz.Observe("gt", gt)
	zz.Assert(derr == nil, "tstep/decompress-no-error")
	zz.Assert(gt == t, "tstep/timestamp-exact")
	zz.Assert(verifC08Inv(c, d), "tstep/invariant-preserved")
	nx, err := d.br.readBits(8)
	zz.Assert(err == nil && nx == uint64(tail), "tstep/reader-positioned-after-timestamp")
}

// VerifC08Step: H1, one inductive step.
func VerifC08Step() {
	var buf bytes.Buffer
	bw := newBitWriter(&buf)
	// arbitrary stream alignment (quick: offsets 0 and 3; thorough: 0..7; every
	// offset of the bit writer/reader itself is covered by VerifC08BitIO)
	pad := 0
	if zz.Tier() == 0 {
		pad = 3 * zz.Choice("pad", 2)
	} else {
		pad = zz.Choice("pad", 8)
	}
	for k := 0; k < pad; k++ {
		_ = bw.writeBit(bit(zz.Bool(zz.Name("padbit", k))))
	}
	c := &Compressor{bw: bw, header: 1}
	c.t = zz.I32("c.t")
	c.tDelta = zz.I32("c.tDelta")
	c.leadingZeros = zz.U8("c.lz")
	c.trailingZeros = zz.U8("c.tz")
	c.value = zz.U64("c.value")
	d := &Decompressor{header: 1}
	d.t, d.delta, d.value = uint32(c.t), uint32(c.tDelta), c.value
	d.leadingZeros, d.trailingZeros = zz.U8("d.lz"), zz.U8("d.tz")
	zz.Assume(verifC08Inv(c, d))
	zz.Assume(c.tDelta >= 0)

	t := zz.U32("t")
	vbits := zz.U64("v")
	zz.Assume(t < 1<<31 && int32(t) >= c.t) // non-decreasing epoch seconds
	_, err := c.compress(t, math.Float64frombits(vbits))
	zz.Assert(err == nil, "step/compress-no-error")
	err = c.finish()
	zz.Assert(err == nil, "step/finish-no-error")

	d.br = newBitReader(bytes.NewReader(buf.Bytes()))
	for k := 0; k < pad; k++ {
		_, _ = d.br.readBit()
	}
	gt, gv, derr := d.decompress()
	zz.Observe("gt", gt)
	zz.Observe("gv", math.Float64bits(gv))
	zz.Assert(derr == nil, "step/decompress-no-error")
	zz.Assert(gt == t, "step/timestamp-exact")
	zz.Assert(math.Float64bits(gv) == vbits, "step/value-bit-exact")
	zz.Assert(verifC08Inv(c, d), "step/invariant-preserved")
	_, _, e2 := d.decompress()
	zz.Assert(e2 != nil, "step/finish-marker-ends-stream")
}

func verifC08Stream(n int) {
	var buf bytes.Buffer
	header := zz.U32("header")
	zz.Assume(header > 0 && header < 1<<31)
	c, finish, err := NewCompressor(&buf, header)
	zz.Assert(err == nil, "stream/new-no-error")
	ts := make([]uint32, n)
	vs := make([]uint64, n)
	prev := header
	for k := 0; k < n; k++ {
		ts[k] = zz.U32(zz.Name("t", k))
		vs[k] = zz.U64(zz.Name("v", k))
		zz.Assume(ts[k] >= prev && ts[k] < 1<<31)
		if k == 0 {
			zz.Assume(ts[k]-header < 1<<14-1)
		}
		prev = ts[k]
		if k > 0 && zz.Tier() == 0 {
			zz.Assume((vs[k]^vs[k-1])>>6 == 0)
		}
		_, err := c.Compress(ts[k], math.Float64frombits(vs[k]))
		zz.Assert(err == nil, "stream/compress-no-error")
	}
	zz.Assert(finish() == nil, "stream/finish-no-error")
	it, err := NewDecompressIterator(bytes.NewReader(buf.Bytes()))
	zz.Assert(err == nil, "stream/newiter-no-error")
	for k := 0; k < n; k++ {
		ok := it.Next()
		zz.Assert(ok, "stream/next-true-for-every-point")
		if !ok {
			return
		}
		gt, gv := it.At()
		zz.Observe(zz.Name("gt", k), gt)
		zz.Observe(zz.Name("gv", k), math.Float64bits(gv))
		zz.Assert(gt == ts[k], "stream/timestamp-exact")
		zz.Assert(math.Float64bits(gv) == vs[k], "stream/value-bit-exact")
	}
	zz.Assert(!it.Next(), "stream/ends-after-last-point")
	zz.Assert(it.Err() == nil, "stream/clean-eof")
}

func VerifC08Stream2() { verifC08Stream(2) }
func VerifC08Stream3() { verifC08Stream(3) }

// VerifC08BitIO: H2, bit writer/reader alignment.
func VerifC08BitIO() {
	var buf bytes.Buffer
	bw := newBitWriter(&buf)
	pad := zz.Choice("pad", 8)
	for k := 0; k < pad; k++ {
		_ = bw.writeBit(bit(zz.Bool(zz.Name("padbit", k))))
	}
	n := zz.Choice("n", 65)
	u := zz.U64("u")
	zz.Assert(bw.writeBits(u, n) == nil, "bitio/write-no-error")
	tail := zz.U8("tail")
	zz.Assert(bw.writeBits(uint64(tail), 8) == nil, "bitio/write-no-error")
	zz.Assert(bw.flush(zero) == nil, "bitio/flush-no-error")
	zz.Assert(buf.Len() == (pad+n+8+7)/8, "bitio/length")
	br := newBitReader(bytes.NewReader(buf.Bytes()))
	for k := 0; k < pad; k++ {
		_, _ = br.readBit()
	}
	got, err := br.readBits(n)
	zz.Assert(err == nil, "bitio/read-no-error")
	want := u
	if n < 64 {
		want = u & (1<<uint(n) - 1)
	}
	zz.Observe("got", got)
	zz.Assert(got == want, "bitio/roundtrip")
	g2, err := br.readBits(8)
	zz.Assert(err == nil && g2 == uint64(tail), "bitio/following-byte-intact")
}
