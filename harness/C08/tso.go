//go:build verif

package series

// C08-H4: a series present in a block's TSO index is always found (with its own
// offset), an absent one never is, whatever the order in which series are asked.
//
//verif:pkg pkg/segment/reader/metrics/series
//verif:entry VerifC08SeriesLookup conf=6
//verif:bound TSO index of 1..4 strictly increasing free 64-bit series ids (both file versions); two successive GetTimeSeriesIterator lookups of different ids (each present or absent) in either order, exercising the three call shapes of the binary search

import (
	zz "github.com/siglens/siglens/pkg/zzverif"
)

func VerifC08SeriesLookup() {
	n := 1 + zz.Choice("nseries", 4)
	v2 := zz.Choice("tsoV2", 2) == 1
	ids := make([]uint64, n)
	var tso, tsg []byte
	if v2 {
		tso = append(tso, 0x02)
		for i := 0; i < 8; i++ {
			tso = append(tso, byte(uint64(n)>>(8*uint(i))))
		}
	} else {
		tso = append(tso, 0x01, byte(n), 0)
	}
	for i := 0; i < n; i++ {
		ids[i] = zz.U64(zz.Name("tsid", i))
		if i > 0 {
			zz.Assume(ids[i-1] < ids[i])
		}
		off := uint32(len(tsg))
		for k := 0; k < 8; k++ {
			tso = append(tso, byte(ids[i]>>(8*uint(k))))
		}
		tso = append(tso, byte(off), byte(off>>8), byte(off>>16), byte(off>>24))
		// TSG entry: version, tsid, length, a 4-byte Gorilla header
		tsg = append(tsg, 0x01)
		for k := 0; k < 8; k++ {
			tsg = append(tsg, byte(ids[i]>>(8*uint(k))))
		}
		tsg = append(tsg, 4, 0, 0, 0, byte(i), 0, 0, 0)
	}
	version := byte(0x01)
	if v2 {
		version = 0x02
	}
	r := &TimeSeriesBlockReader{tsoVersion: version, rawTSO: tso, rawTSG: tsg, numTSIDs: uint64(n), first: true}
	var asked [2]uint64
	for q := 0; q < 2; q++ {
		want := zz.U64(zz.Name("lookup", q))
		if q == 1 {
			zz.Assume(want != asked[0]) // the caller iterates over a set of distinct series ids
		}
		asked[q] = want
		present := false
		for i := 0; i < n; i++ {
			if ids[i] == want {
				present = true
			}
		}
		it, found, err := r.GetTimeSeriesIterator(want)
		zz.Observe(zz.Name("found", q), found)
		zz.Assert(err == nil, "tso/no-error")
		zz.Assert(found == present, "tso/found-iff-present")
		zz.Assert(!found || it != nil, "tso/iterator-for-a-found-series")
	}
}
