//go:build verif

package metrics

// C08 (datapoints survive rotation and shutdown): a forced rotation (graceful shutdown)
// registers the open metrics segment whenever the segment holds any encoded data - also when
// its current block is empty because the block was rotated on its own just before - and
// flushes a non-empty current block first.
//
//verif:pkg pkg/segment/writer/metrics
//verif:entry VerifC08ForcedRotationRegistersTheSegment conf=0 replay=no
//verif:stub-always (*github.com/siglens/siglens/pkg/segment/writer/metrics.MetricsBlock).rotateBlock verifC08rRotateBlock
//verif:stub-always (*github.com/siglens/siglens/pkg/segment/writer/metrics.MetricsSegment).rotateSegment verifC08rRotateSegment
//verif:stub-always github.com/siglens/siglens/pkg/segment/writer/metrics.GetTagsTreeHolder verifC08rTagsTree
//verif:stub-always (*github.com/siglens/siglens/pkg/segment/writer/metrics.TagsTreeHolder).flushTagsTree verifC08rFlushTags
//verif:stub-always (*github.com/siglens/siglens/pkg/segment/writer/metrics.TagsTreeHolder).rotateTagsTree verifC08rRotateTags
//verif:bound free 64-bit encoded sizes of the segment and of its current block (block <= segment), forced or size-triggered call; MetricsSegment.CheckAndRotate
//verif:outside what rotateBlock / rotateSegment / the tags-tree flush write (recording stubs), timers, concurrent ingest
//verif:assume the segment's encoded size counts the bytes of all its blocks, the current one included

import (
	"time"

	sutils "github.com/siglens/siglens/pkg/segment/utils"
	zz "github.com/siglens/siglens/pkg/zzverif"
)

var verifC08rLog []string

func verifC08rRotateBlock(mb *MetricsBlock, basePath string, suffix uint64, bufId uint16) error {
	verifC08rLog = append(verifC08rLog, "block")
	return nil
}
func verifC08rRotateSegment(ms *MetricsSegment, forceRotate bool) error {
	verifC08rLog = append(verifC08rLog, "segment")
	return nil
}
func verifC08rTagsTree(orgid int64, mid string) *TagsTreeHolder {
	return &TagsTreeHolder{createdTime: time.Unix(1700000000, 0)}
}
func verifC08rFlushTags(tt *TagsTreeHolder)                          {}
func verifC08rRotateTags(tt *TagsTreeHolder, forceRotate bool) error { return nil }

func VerifC08ForcedRotationRegistersTheSegment() {
	verifC08rLog = nil
	total, blk := zz.U64("segmentEncodedSize"), zz.U64("blockEncodedSize")
	zz.Assume(blk <= total)
	force := zz.Bool("forced")
	ms := &MetricsSegment{mBlock: &MetricsBlock{blkEncodedSize: blk}, mSegEncodedSize: total}
	err := ms.CheckAndRotate(force)
	zz.Assert(err == nil, "rotation/no-error")
	blockAt, segAt := -1, -1
	for i, e := range verifC08rLog {
		if e == "block" && blockAt < 0 {
			blockAt = i
		}
		if e == "segment" && segAt < 0 {
			segAt = i
		}
	}
	zz.Assert(len(verifC08rLog) <= 2, "rotation/each-step-at-most-once")
	if force {
		zz.Assert((segAt >= 0) == (total > 0), "rotation/forced-rotation-registers-a-segment-that-holds-data")
		zz.Assert((blockAt >= 0) == (blk > 0), "rotation/forced-rotation-flushes-a-non-empty-block")
	} else {
		zz.Assert((segAt >= 0) == (total > sutils.MAX_BYTES_METRICS_SEGMENT), "rotation/size-triggered-segment-rotation")
		zz.Assert(blockAt < 0 || blk > 0, "rotation/an-empty-block-is-never-flushed")
	}
	if blockAt >= 0 && segAt >= 0 {
		zz.Assert(blockAt < segAt, "rotation/the-block-is-flushed-before-the-segment-is-registered")
	}
}
