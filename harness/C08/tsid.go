//go:build verif

package metrics

// C08-H5: series identity — two different tag sets of the same metric must not
// get the same series id (hash collisions aside).
//
//verif:pkg pkg/segment/writer/metrics
//verif:entry VerifC08SeriesIdentity conf=4
//verif:entry VerifC08SeriesIdentityOneTag conf=4
//verif:bound one tag each: keys of 1..2 and values of 0..3 bytes over {'a','b','1'} (no separator characters), metric names "m" or "mm": different (name, key, value) => different id
//verif:bound metric name "m"; series A has two tags, series B has one tag; keys and values are strings of 1..2 (keys) and 1..6 (values) bytes over the alphabet {'_','a','b','1','2'}; xxhash is an injective function (collisions outside the claim), so equal ids mean equal serialisations

import (
	jp "github.com/buger/jsonparser"
	zz "github.com/siglens/siglens/pkg/zzverif"
)

func verifC08Str(name string, minLen, maxLen int) string {
	n := minLen + zz.Choice(name+".len", maxLen-minLen+1)
	b := make([]byte, n)
	for i := range b {
		b[i] = zz.ByteIn(zz.Name(name+"#", i), "_ab12")
	}
	return string(b)
}

func VerifC08SeriesIdentity() {
	ka1, va1 := verifC08Str("A.k1", 1, 2), verifC08Str("A.v1", 1, 1)
	ka2, va2 := verifC08Str("A.k2", 1, 2), verifC08Str("A.v2", 1, 1)
	zz.Assume(ka1 != ka2)
	kb, vb := verifC08Str("B.k", 1, 2), verifC08Str("B.v", 1, 6)
	a := GetTagsHolder()
	a.Insert(ka1, []byte(va1), jp.String)
	a.Insert(ka2, []byte(va2), jp.String)
	b := GetTagsHolder()
	b.Insert(kb, []byte(vb), jp.String)
	ida, err := a.GetTSID([]byte("m"))
	zz.Assert(err == nil, "tsid/no-error")
	idb, err := b.GetTSID([]byte("m"))
	zz.Assert(err == nil, "tsid/no-error")
	zz.Observe("same", ida == idb)
	// A has two tags and B has one, so the tag sets differ
	zz.Assert(ida != idb, "tsid/different-tag-sets-get-different-series-ids")
}

func verifC08Plain(name string, minLen, maxLen int) string {
	n := minLen + zz.Choice(name+".len", maxLen-minLen+1)
	b := make([]byte, n)
	for i := range b {
		b[i] = zz.ByteIn(zz.Name(name+"#", i), "ab1")
	}
	return string(b)
}

// VerifC08SeriesIdentityOneTag: with a single tag and no separator characters in
// the strings the serialisation is unambiguous, so different series must differ.
func VerifC08SeriesIdentityOneTag() {
	ka, va := verifC08Plain("A.k", 1, 2), verifC08Plain("A.v", 0, 3)
	kb, vb := verifC08Plain("B.k", 1, 2), verifC08Plain("B.v", 0, 3)
	na := []string{"m", "mm"}[zz.Choice("A.name", 2)]
	nb := []string{"m", "mm"}[zz.Choice("B.name", 2)]
	a := GetTagsHolder()
	a.Insert(ka, []byte(va), jp.String)
	b := GetTagsHolder()
	b.Insert(kb, []byte(vb), jp.String)
	ida, err := a.GetTSID([]byte(na))
	zz.Assert(err == nil, "tsid/no-error")
	idb, err := b.GetTSID([]byte(nb))
	zz.Assert(err == nil, "tsid/no-error")
	same := na == nb && ka == kb && va == vb
	zz.Observe("sameid", ida == idb)
	zz.Assert((ida == idb) == same, "tsid/one-tag/id-equal-iff-same-series")
}
