//go:build verif

package segreader

// helper for the C01 column-alignment harness: walks a raw column block with the
// reader's own record iteration (ReadRecord / getCurrentRecordLength), exactly as
// after unpackRawCsg.
//
//verif:pkg pkg/segment/reader/segread/segreader

import (
	sutils "github.com/siglens/siglens/pkg/segment/utils"
)

func VerifC01ReadRecords(buf []byte, consistentLen uint32, n uint16) ([][]byte, bool) {
	sfr := &SegmentFileReader{ColName: "c", currRawBlockBuffer: buf, currUncompressedBlockLen: uint32(len(buf)),
		consistentColValueLen: consistentLen, encType: sutils.ZSTD_COMLUNAR_BLOCK[0], isBlockLoaded: true}
	l, err := sfr.getCurrentRecordLength()
	if err != nil {
		return nil, false
	}
	sfr.currRecLen = l
	var out [][]byte
	for i := uint16(0); i < n; i++ {
		rec, err := sfr.ReadRecord(i)
		if err != nil || rec == nil {
			return out, false
		}
		out = append(out, append([]byte{}, rec...))
	}
	return out, true
}
