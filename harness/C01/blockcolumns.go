//go:build verif

package writer

// C01-H5: the per-block table of column offsets starts every block empty: a column that has
// no value in the block being flushed keeps the "absent" marker (length 0) - it does not
// inherit the offset and length of an earlier block, from which a reader would serve that
// block's values for this block's events.
//
//verif:pkg pkg/segment/writer
//verif:entry VerifC01BlockColumnTableStartsEmpty conf=6
//verif:bound a segment whose earlier block left 0..3 table entries with free offsets and lengths (or no table yet), 0..4 columns in the block being flushed; SegStore.initBmh
//verif:outside the flush itself (compression, files, goroutines): that the columns present in the block then overwrite their entries is read off AppendWipToSegfile, not encoded
//verif:assume none

import (
	"github.com/siglens/siglens/pkg/segment/structs"
	zz "github.com/siglens/siglens/pkg/zzverif"
)

func VerifC01BlockColumnTableStartsEmpty() {
	ss := NewSegStore(0)
	ss.initWipBlock()
	ncols := zz.Choice("columnsInThisBlock", 5)
	for i := 0; i < ncols; i++ {
		ss.wipBlock.colWips[zz.Name("c", i)] = &ColWip{}
	}
	if zz.Choice("earlierBlockFlushed", 2) == 1 {
		nprev := zz.Choice("earlierEntries", 4)
		ss.wipBlock.bmiCnameIdxDict = map[string]int{}
		ss.wipBlock.bmiColOffLen = make([]structs.ColOffAndLen, nprev)
		for i := 0; i < nprev; i++ {
			ss.wipBlock.bmiCnameIdxDict[zz.Name("c", i)] = i
			ss.wipBlock.bmiColOffLen[i] = structs.ColOffAndLen{Offset: int64(zz.U32(zz.Name("off", i))), Length: zz.U32(zz.Name("len", i))}
		}
	} else {
		ss.wipBlock.bmiCnameIdxDict = nil
		ss.wipBlock.bmiColOffLen = nil
	}
	ss.initBmh()
	zz.Assert(ss.wipBlock.bmiCnameIdxDict != nil, "blockcolumns/name-table-exists")
	zz.Assert(len(ss.wipBlock.bmiColOffLen) >= ncols, "blockcolumns/room-for-every-column-of-the-block")
	zz.Observe("entries", len(ss.wipBlock.bmiColOffLen))
	for i := range ss.wipBlock.bmiColOffLen {
		zz.Assert(ss.wipBlock.bmiColOffLen[i].Length == 0, "blockcolumns/every-entry-starts-as-absent")
	}
}
