//go:build verif

package writer

// C01 (mixed columns, numeric consolidation): when every string of a mixed column parses as
// a number the block is rewritten as all numbers. A string value must still read back with
// its original content, i.e. the number written for it must render back to the same text.
//
//verif:pkg pkg/segment/writer
//verif:entry VerifC01MixedColumnToNumbers conf=0 replay=no
//verif:stub-always github.com/siglens/siglens/pkg/segment/writer.addIntToRangeIndex verifC01nNoIntRange
//verif:stub-always github.com/siglens/siglens/pkg/segment/writer.addFloatToRangeIndex verifC01nNoFloatRange
//verif:bound a column block of an int64 record followed by one string record whose text is drawn from {"7", "-12", "1.5", "007", "+5", "1e3", "1.50", "NaN", "inf", "0x10"}; convertColumnToNumbers; if the conversion is taken, the string record's new numeric value is rendered back with strconv and compared with the original text
//verif:outside free string contents (strconv on symbolic text is not encodable), the range index (stubbed), which columns consolidateColumnTypes picks

import (
	"strconv"

	"github.com/siglens/siglens/pkg/segment/structs"
	sutils "github.com/siglens/siglens/pkg/segment/utils"
	"github.com/siglens/siglens/pkg/utils"
	zz "github.com/siglens/siglens/pkg/zzverif"
)

func verifC01nNoIntRange(key string, incomingVal int64, rangeIndexPtr map[string]*structs.Numbers) {}
func verifC01nNoFloatRange(key string, incomingVal float64, rangeIndexPtr map[string]*structs.Numbers) {
}

func VerifC01MixedColumnToNumbers() {
	texts := []string{"7", "-12", "1.5", "007", "+5", "1e3", "1.50", "NaN", "inf", "0x10"}
	text := texts[zz.Choice("text", len(texts))]
	colWip := InitColWip("/d/seg", "c")
	colWip.cbuf.Append(sutils.VALTYPE_ENC_INT64[:])
	colWip.cbuf.AppendInt64LittleEndian(42)
	colWip.cbufidx += 9
	colWip.WriteSingleString(text)
	wip := &WipBlock{colWips: map[string]*ColWip{"c": colWip}, columnBlooms: map[string]*BloomIndex{"c": {}},
		columnRangeIndexes: map[string]*RangeIndex{"c": {Ranges: map[string]*structs.Numbers{}}}}
	converted, err := convertColumnToNumbers(wip, "c", "/d/seg")
	zz.Assert(err == nil, "tonumbers/no-error")
	if !converted {
		return // the block is rewritten as strings instead (VerifC01MixedColumnToStrings)
	}
	out := wip.colWips["c"]
	buf := out.cbuf.Slice(0, int(out.cbufidx))
	zz.Assert(len(buf) == 18 && buf[0] == sutils.VALTYPE_ENC_INT64[0], "tonumbers/first-record-unchanged")
	if len(buf) != 18 {
		return
	}
	var rendered string
	switch buf[9] {
	case sutils.VALTYPE_ENC_INT64[0]:
		rendered = strconv.FormatInt(utils.BytesToInt64LittleEndian(buf[10:18]), 10)
	case sutils.VALTYPE_ENC_FLOAT64[0]:
		rendered = strconv.FormatFloat(utils.BytesToFloat64LittleEndian(buf[10:18]), 'f', -1, 64)
	}
	if text == "7" || text == "-12" || text == "1.5" {
		zz.Assert(rendered == text, "tonumbers/plain-numeric-text-round-trips")
	} else {
		zz.Assert(rendered == text, "tonumbers/string-whose-text-is-not-the-number's-canonical-form-keeps-its-content")
	}
}
