//go:build verif

package writer

// C01: the byte-level encoders and decoders of the log round trip are exact:
// timestamps of a block, and block summaries with their column offset tables.
//
//verif:pkg pkg/segment/writer
//verif:load pkg/segment/reader/segread
//verif:load pkg/segment/reader/microreader
//verif:entry VerifC01Timestamps conf=0 replay=no
//verif:entry VerifC01BlockSummary conf=0 replay=no
//verif:bridge verifC01DecodeTimestamps github.com/siglens/siglens/pkg/segment/reader/segread.convertRawRecordsToTimestamps
//verif:bridge verifC01ReadBlockSummaries github.com/siglens/siglens/pkg/segment/reader/microreader.ReadBlockSummaries
//verif:stub-always github.com/siglens/siglens/pkg/config.GetTimeStampKey verifC01TsKey
//verif:stub-always github.com/siglens/siglens/pkg/blob.DownloadSegmentBlob verifC01NoDownload
//verif:stub-always github.com/siglens/siglens/pkg/segment/reader/microreader.internCnamesBytes verifC01Intern
//verif:bound timestamps: a block of 1..3 (quick) / 1..4 (thorough) records with free 64-bit timestamps >= 1, encoded by adjustEarliestLatestTimes + encodeTimestamps and decoded by the reader's convertRawRecordsToTimestamps
//verif:bound block summaries: 1..2 blocks with free HighTs/LowTs/RecCount and two columns ("a", "bc") with free offsets/lengths (a zero length means the column is absent from the block), EncodeBlocksum appended to a .bsu file and read back by ReadBlockSummaries
//verif:outside the JSON tokenizer and flattening, consolidateColumnTypes, zstd, segment rotation, the query engine above the decoders; the in-block column alignment (doLogEventFilling) and dictionary packing are not covered by this check
//verif:assume the harness (package writer) reaches the reader's unexported decoder through an engine-level bridge, so these harnesses are not replayed natively

import (
	"os"

	"github.com/siglens/siglens/pkg/segment/structs"
	sutils "github.com/siglens/siglens/pkg/segment/utils"
	"github.com/siglens/siglens/pkg/utils"
	zz "github.com/siglens/siglens/pkg/zzverif"
)

func verifC01TsKey() string                                { return "timestamp" }
func verifC01NoDownload(fName string, logError bool) error { return nil }

// the reader interns column names in a sync.Map (unsafe): identity here
func verifC01Intern(b []byte) string { return string(b) }

// bridged to segread.convertRawRecordsToTimestamps
func verifC01DecodeTimestamps(rawRec []byte, numRecs uint16, bufToUse []uint64) ([]uint64, error) {
	panic("bridged by the engine")
}

// bridged to microreader.ReadBlockSummaries
func verifC01ReadBlockSummaries(fileName string, summaryOnly bool) ([]*structs.BlockSummary, *structs.AllBlksMetaInfo, error) {
	panic("bridged by the engine")
}

func VerifC01Timestamps() {
	maxN := 3
	if zz.Tier() > 0 {
		maxN = 4
	}
	n := 1 + zz.Choice("records", maxN)
	wb := &WipBlock{colWips: map[string]*ColWip{"timestamp": {cbuf: &utils.Buffer{}}}, blockTs: make([]uint64, n)}
	for i := 0; i < n; i++ {
		ts := zz.U64(zz.Name("ts", i))
		zz.Assume(ts >= 1)
		wb.blockTs[i] = ts
		wb.adjustEarliestLatestTimes(ts)
		wb.blockSummary.RecCount++
	}
	for i := 0; i < n; i++ {
		zz.Assert(wb.blockSummary.LowTs <= wb.blockTs[i] && wb.blockTs[i] <= wb.blockSummary.HighTs, "timestamps/block-summary-brackets-every-record")
	}
	encType, err := wb.encodeTimestamps()
	zz.Assert(err == nil, "timestamps/encode-no-error")
	tsWip := wb.colWips["timestamp"]
	raw := append(append([]byte{}, encType...), tsWip.cbuf.Slice(0, int(tsWip.cbufidx))...)
	got, err := verifC01DecodeTimestamps(raw, uint16(n), nil)
	zz.Assert(err == nil, "timestamps/decode-no-error")
	zz.Assert(len(got) >= n, "timestamps/decoded-count")
	for i := 0; i < n && i < len(got); i++ {
		zz.Assert(got[i] == wb.blockTs[i], "timestamps/every-record-keeps-its-own-timestamp")
	}
}

func VerifC01BlockSummary() {
	dir, err := os.MkdirTemp("", "verifbsu")
	zz.Assume(err == nil)
	path := dir + "/1.bsu"
	fd, err := os.OpenFile(path, os.O_APPEND|os.O_WRONLY|os.O_CREATE, 0644)
	zz.Assume(err == nil)
	nblk := 1 + zz.Choice("blocks", 2)
	cnameDict := map[string]int{"a": 0, "bc": 1}
	type blk struct {
		sum structs.BlockSummary
		col []structs.ColOffAndLen
	}
	blks := make([]blk, nblk)
	for b := 0; b < nblk; b++ {
		blks[b].sum = structs.BlockSummary{HighTs: zz.U64(zz.Name("high", b)), LowTs: zz.U64(zz.Name("low", b)), RecCount: zz.U16(zz.Name("recs", b))}
		blks[b].col = []structs.ColOffAndLen{
			{Offset: zz.I64(zz.Name("offA", b)), Length: zz.U32(zz.Name("lenA", b))},
			{Offset: zz.I64(zz.Name("offBC", b)), Length: zz.U32(zz.Name("lenBC", b))},
		}
		n, buf, err := EncodeBlocksum(&blks[b].sum, make([]byte, 8), uint16(b), cnameDict, blks[b].col)
		zz.Assert(err == nil, "blocksummary/encode-no-error")
		_, err = fd.Write(buf[:n])
		zz.Assert(err == nil, "blocksummary/write-no-error")
	}
	fd.Close()
	sums, bmi, err := verifC01ReadBlockSummaries(path, false)
	zz.Assert(err == nil, "blocksummary/read-no-error")
	zz.Assert(len(sums) == nblk, "blocksummary/one-summary-per-block")
	if err != nil || len(sums) != nblk {
		return
	}
	for b := 0; b < nblk; b++ {
		zz.Assert(sums[b].HighTs == blks[b].sum.HighTs && sums[b].LowTs == blks[b].sum.LowTs && sums[b].RecCount == blks[b].sum.RecCount, "blocksummary/time-range-and-count-exact")
		h := bmi.AllBmh[uint16(b)]
		zz.Assert(h != nil && h.BlkNum == uint16(b), "blocksummary/block-metadata-present")
		if h == nil {
			continue
		}
		for name, idx := range cnameDict {
			want := blks[b].col[idx]
			ridx, known := bmi.CnameDict[name]
			if want.Length == 0 {
				// absent column: no entry, or a zero-length entry
				if known && ridx < len(h.ColBlockOffAndLen) {
					zz.Assert(h.ColBlockOffAndLen[ridx].Length == 0, "blocksummary/absent-column-stays-absent")
				}
				continue
			}
			zz.Assert(known && ridx < len(h.ColBlockOffAndLen), "blocksummary/present-column-is-listed")
			if known && ridx < len(h.ColBlockOffAndLen) {
				got := h.ColBlockOffAndLen[ridx]
				zz.Assert(got.Offset == want.Offset && got.Length == want.Length, "blocksummary/column-offset-and-length-under-its-own-name")
			}
		}
	}
	_ = sutils.VALTYPE_ENC_BOOL
}
