//go:build verif

package writer

// C01-H2: in a column block every record of every column sits in the row of the
// event that sent it: late-appearing and missing columns are backfilled, and the
// "consistent record length" recorded for the reader's seeking shortcut is sound.
//
//verif:pkg pkg/segment/writer
//verif:load pkg/segment/reader/segread/segreader
//verif:entry VerifC01ColumnAlignment conf=0 replay=no
//verif:bridge verifC01ReadRecords github.com/siglens/siglens/pkg/segment/reader/segread/segreader.VerifC01ReadRecords
//verif:stub-always github.com/bits-and-blooms/bloom/v3.NewWithEstimates verifC01NoBloom
//verif:stub-always github.com/siglens/siglens/pkg/segment/writer.addSegStatsStrIngestion verifC01NoStatsStr
//verif:stub-always github.com/siglens/siglens/pkg/segment/writer.addSegStatsBool verifC01NoStatsBool
//verif:stub-always github.com/siglens/siglens/pkg/segment/writer.addSegStatsNums verifC01NoStatsNums
//verif:stub-always github.com/siglens/siglens/pkg/segment/writer.addRollup verifC01NoRollup
//verif:bound a fresh block filled with 2 (quick; column b restricted to absent/string/null) / 1..2 (thorough; every kind in both columns) events through parseSingle*/doLogEventFilling; each event carries any subset of the columns {a, b}, each value a 1..2-byte string, a bool, an int64, a float64 or an explicit null, free contents; the quick tier runs with dictionary bookkeeping switched off (skipDe), the thorough tier with it on; then every column is read back with the reader's own record walk using the recorded column size
//verif:outside the JSON tokenizer/flattening, consolidateColumnTypes, bloom filters, segment statistics and rollups (stubbed: none of them writes the column buffers), zstd and files, segment rotation

import (
	"math"

	"github.com/bits-and-blooms/bloom/v3"
	"github.com/siglens/siglens/pkg/segment/structs"
	sutils "github.com/siglens/siglens/pkg/segment/utils"
	zz "github.com/siglens/siglens/pkg/zzverif"
)

func verifC01ReadRecords(buf []byte, consistentLen uint32, n uint16) ([][]byte, bool) {
	panic("bridged by the engine")
}

func verifC01NoBloom(n uint, fp float64) *bloom.BloomFilter                                    { return nil }
func verifC01NoStatsStr(segstats map[string]*structs.SegStats, cname string, valBytes []byte)  {}
func verifC01NoStatsBool(segstats map[string]*structs.SegStats, cname string, valBytes []byte) {}
func verifC01NoStatsNums(segstats map[string]*structs.SegStats, cname string, inNumType sutils.SS_IntUintFloatTypes, intVal int64,
	uintVal uint64, fltVal float64, valBytes []byte) {
}
func verifC01NoRollup(rrmap map[uint64]*RolledRecs, rolledTs uint64, lastRecNum uint16) {}

func VerifC01ColumnAlignment() {
	maxEvents := 2 // three events with every kind in both columns did not finish within the thorough tier's time limit
	nev := maxEvents
	if zz.Tier() > 0 {
		nev = 1 + zz.Choice("events", maxEvents)
	}
	tsKey := "timestamp"
	ss := NewSegStore(0)
	ss.SegmentKey = "/d/seg/0"
	ss.initWipBlock()
	// the dictionary side structure is checked by VerifC01DictionaryBlock; the quick
	// tier skips it here (it only adds equality case splits on the values)
	ss.skipDe = zz.Tier() == 0
	cols := []string{"a", "b"}
	want := map[string][][]byte{"a": nil, "b": nil} // expected TLV per event (nil = absent)
	times := make([]uint64, nev)
	for e := 0; e < nev; e++ {
		ple := NewPLE()
		times[e] = zz.U64Range(zz.Name("ts", e), 1, 1<<45)
		ple.SetTimestamp(times[e])
		for _, c := range cols {
			name := zz.Name(c+".ev", e)
			var tlv []byte
			kind := 0
			if zz.Tier() == 0 && c == "b" {
				// quick tier: the second column only goes absent / string / explicit null
				kind = []int{0, 1, 5}[zz.Choice(name+".kind", 3)]
			} else {
				kind = zz.Choice(name+".kind", 6)
			}
			switch kind {
			case 0: // column absent from this event
			case 1:
				l := 1 + zz.Choice(name+".strlen", 2)
				val := zz.Bytes(name+".str", l)
				parseSingleString(c, &tsKey, val, ple)
				tlv = append([]byte{sutils.VALTYPE_ENC_SMALL_STRING[0], byte(l), 0}, val...)
			case 2:
				b := zz.Bool(name + ".bool")
				parseSingleBool(c, b, &tsKey, ple)
				tlv = []byte{sutils.VALTYPE_ENC_BOOL[0], 0}
				if b {
					tlv[1] = 1
				}
			case 3:
				v := zz.I64(name + ".int")
				parseSingleNumber(c, v, &tsKey, nil, ple)
				tlv = []byte{sutils.VALTYPE_ENC_INT64[0]}
				for k := 0; k < 8; k++ {
					tlv = append(tlv, byte(uint64(v)>>(8*uint(k))))
				}
			case 4:
				bits := zz.U64(name + ".float")
				parseSingleNumber(c, math.Float64frombits(bits), &tsKey, nil, ple)
				tlv = []byte{sutils.VALTYPE_ENC_FLOAT64[0]}
				for k := 0; k < 8; k++ {
					tlv = append(tlv, byte(bits>>(8*uint(k))))
				}
			case 5:
				parseSingleNull(c, &tsKey, ple)
				tlv = []byte{sutils.VALTYPE_ENC_BACKFILL[0]}
			}
			want[c] = append(want[c], tlv)
		}
		_, err := ss.doLogEventFilling(ple, &tsKey)
		zz.Assert(err == nil, "align/fill-no-error")
		// bookkeeping done by AddEntry after every event
		ss.wipBlock.blockSummary.RecCount++
		ss.RecordCount++
	}
	n := ss.wipBlock.blockSummary.RecCount
	zz.Assert(int(n) == nev, "align/record-count")
	for e := 0; e < nev; e++ {
		zz.Assert(ss.wipBlock.blockTs[e] == times[e], "align/event-keeps-its-timestamp")
	}
	for _, c := range cols {
		seen := false
		for _, t := range want[c] {
			if t != nil {
				seen = true
			}
		}
		colWip, ok := ss.wipBlock.colWips[c]
		zz.Assert(ok == seen, "align/column-exists-iff-some-event-carried-it")
		if !ok {
			continue
		}
		buf := colWip.cbuf.Slice(0, int(colWip.cbufidx))
		recs, okRead := verifC01ReadRecords(buf, ss.AllSeenColumnSizes[c], n)
		zz.Assert(okRead && len(recs) == nev, "align/reader-walks-exactly-one-record-per-event")
		for e := 0; e < nev && e < len(recs); e++ {
			exp := want[c][e]
			if exp == nil {
				exp = []byte{sutils.VALTYPE_ENC_BACKFILL[0]}
			}
			same := len(recs[e]) == len(exp)
			for k := 0; same && k < len(exp); k++ {
				if recs[e][k] != exp[k] {
					same = false
				}
			}
			zz.Assert(same, "align/value-stays-in-its-own-event-and-column")
		}
	}
}
