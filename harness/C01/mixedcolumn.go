//go:build verif

package writer

// C01 (mixed columns): when a column holds both strings and numbers in one block, the block
// is rewritten as all strings before it is flushed. Every value must survive that rewrite:
// the text written for a number parses back to exactly that number, strings, booleans and
// missing values are unchanged, and the records keep their order.
//
//verif:pkg pkg/segment/writer
//verif:entry VerifC01MixedColumnToStrings conf=0 replay=no
//verif:stub-always github.com/siglens/siglens/pkg/segment/writer.addToBlockBloomBothCases verifC01mNoBloom
//verif:bound a column block of 1..3 records, each a 1..2-byte string (free bytes), an int64 from {0, -1, 1234567890123, MaxInt64, MinInt64}, a float64 from {1.5, 0.1, 0.30000000000000004, 3.141592653589793, 1e21, 5e-324, MaxFloat64, -2.5e-7}, a bool or a missing value; convertColumnToStrings, then the new block is walked record by record; strconv (FormatFloat/FormatInt/ParseFloat/ParseInt) is interpreted from its source on these concrete numbers
//verif:outside numbers outside the listed sets (decimal formatting of a free float64 is digit-generation code with data-dependent loops: not encodable symbolically), the bloom filter (stubbed), consolidateColumnTypes' decision which columns to rewrite

import (
	"math"
	"strconv"

	"github.com/bits-and-blooms/bloom/v3"
	sutils "github.com/siglens/siglens/pkg/segment/utils"
	zz "github.com/siglens/siglens/pkg/zzverif"
)

func verifC01mNoBloom(blockBloom *bloom.BloomFilter, fullWord []byte) uint32 { return 0 }

func VerifC01MixedColumnToStrings() {
	n := 1 + zz.Choice("records", 3)
	ints := []int64{0, -1, 1234567890123, math.MaxInt64, math.MinInt64}
	floats := []float64{1.5, 0.1, 0.30000000000000004, 3.141592653589793, 1e21, 5e-324, math.MaxFloat64, -2.5e-7}
	colWip := InitColWip("/d/seg", "c")
	kind := make([]int, n)
	strs := make([][]byte, n)
	iv := make([]int64, n)
	fv := make([]float64, n)
	bv := make([]bool, n)
	for i := 0; i < n; i++ {
		kind[i] = zz.Choice(zz.Name("kind", i), 5)
		switch kind[i] {
		case 0:
			l := 1 + zz.Choice(zz.Name("strlen", i), 2)
			strs[i] = zz.Bytes(zz.Name("str", i), l)
			colWip.WriteSingleStringBytes(strs[i])
		case 1:
			iv[i] = ints[zz.Choice(zz.Name("int", i), len(ints))]
			colWip.cbuf.Append(sutils.VALTYPE_ENC_INT64[:])
			colWip.cbuf.AppendInt64LittleEndian(iv[i])
			colWip.cbufidx += 9
		case 2:
			fv[i] = floats[zz.Choice(zz.Name("float", i), len(floats))]
			colWip.cbuf.Append(sutils.VALTYPE_ENC_FLOAT64[:])
			colWip.cbuf.AppendFloat64LittleEndian(fv[i])
			colWip.cbufidx += 9
		case 3:
			bv[i] = zz.Choice(zz.Name("bool", i), 2) == 1
			b := byte(0)
			if bv[i] {
				b = 1
			}
			colWip.cbuf.Append(sutils.VALTYPE_ENC_BOOL[:])
			colWip.cbuf.Append([]byte{b})
			colWip.cbufidx += 2
		case 4:
			colWip.cbuf.Append(sutils.VALTYPE_ENC_BACKFILL[:])
			colWip.cbufidx += 1
		}
	}
	wip := &WipBlock{colWips: map[string]*ColWip{"c": colWip}, columnBlooms: map[string]*BloomIndex{"c": {}},
		columnRangeIndexes: map[string]*RangeIndex{}}
	zz.Assert(convertColumnToStrings(wip, "c", "/d/seg") == nil, "mixed/convert-no-error")
	out := wip.colWips["c"]
	buf := out.cbuf.Slice(0, int(out.cbufidx))
	pos := 0
	for i := 0; i < n; i++ {
		zz.Assert(pos < len(buf), "mixed/every-record-still-present")
		if pos >= len(buf) {
			return
		}
		if kind[i] == 4 {
			zz.Assert(buf[pos] == sutils.VALTYPE_ENC_BACKFILL[0], "mixed/missing-value-stays-missing")
			pos++
			continue
		}
		zz.Assert(buf[pos] == sutils.VALTYPE_ENC_SMALL_STRING[0] && pos+3 <= len(buf), "mixed/record-is-a-string-now")
		if buf[pos] != sutils.VALTYPE_ENC_SMALL_STRING[0] || pos+3 > len(buf) {
			return
		}
		l := int(buf[pos+1]) | int(buf[pos+2])<<8
		zz.Assert(pos+3+l <= len(buf), "mixed/string-length-in-bounds")
		if pos+3+l > len(buf) {
			return
		}
		text := string(buf[pos+3 : pos+3+l])
		pos += 3 + l
		switch kind[i] {
		case 0:
			zz.Assert(text == string(strs[i]), "mixed/string-unchanged")
		case 1:
			got, err := strconv.ParseInt(text, 10, 64)
			zz.Assert(err == nil && got == iv[i], "mixed/integer-text-parses-back-to-the-integer")
		case 2:
			got, err := strconv.ParseFloat(text, 64)
			zz.Assert(err == nil && math.Float64bits(got) == math.Float64bits(fv[i]), "mixed/float-text-parses-back-to-the-same-float")
		case 3:
			zz.Assert(text == strconv.FormatBool(bv[i]), "mixed/bool-text")
		}
	}
	zz.Assert(pos == len(buf), "mixed/no-extra-bytes")
}
