//go:build verif

package writer

// C01-H3: a dictionary-encoded column block gives every record back its own value.
//
//verif:pkg pkg/segment/writer
//verif:entry VerifC01DictionaryBlock conf=4
//verif:bound a column block of 1..3 (quick) / 1..4 (thorough) records, each value a 1..2-byte string, an int64, a bool or missing (backfill) with free contents (so any pattern of equal/different values); checkAddDictEnc + PackDictEnc on the writer side, ReadDictEnc on the reader side
//verif:outside cardinality above the dictionary limit (the block is then written raw), zstd, the file layer

import (
	"github.com/siglens/siglens/pkg/segment/reader/segread/segreader"
	"github.com/siglens/siglens/pkg/segment/structs"
	sutils "github.com/siglens/siglens/pkg/segment/utils"
	zz "github.com/siglens/siglens/pkg/zzverif"
)

func VerifC01DictionaryBlock() {
	maxN := 3
	if zz.Tier() > 0 {
		maxN = 4
	}
	n := 1 + zz.Choice("records", maxN)
	colWip := InitColWip("/d/seg", "c")
	ss := &SegStore{}
	tlvs := make([][]byte, n)
	for i := 0; i < n; i++ {
		var tlv []byte
		backfill := false
		switch zz.Choice(zz.Name("kind", i), 4) {
		case 0:
			l := 1 + zz.Choice(zz.Name("strlen", i), 2)
			tlv = append([]byte{sutils.VALTYPE_ENC_SMALL_STRING[0], byte(l), 0}, zz.Bytes(zz.Name("str", i), l)...)
		case 1:
			v := zz.U64(zz.Name("int", i))
			tlv = []byte{sutils.VALTYPE_ENC_INT64[0]}
			for k := 0; k < 8; k++ {
				tlv = append(tlv, byte(v>>(8*uint(k))))
			}
		case 2:
			tlv = []byte{sutils.VALTYPE_ENC_BOOL[0], zz.U8(zz.Name("bool", i)) & 1}
		case 3:
			tlv = []byte{sutils.VALTYPE_ENC_BACKFILL[0]}
			backfill = true
		}
		tlvs[i] = tlv
		ss.checkAddDictEnc(colWip, tlv, uint16(i), 0, backfill)
	}
	PackDictEnc(colWip, uint16(n))
	buf := colWip.cbuf.Slice(0, int(colWip.cbufidx))
	sfr, err := segreader.InitNewSegFileReader(nil, "c", nil, 0, []*structs.BlockSummary{{RecCount: uint16(n)}}, 0, nil)
	zz.Assert(err == nil, "dict/reader-init")
	zz.Assert(sfr.ReadDictEnc(buf, 0) == nil, "dict/decode-no-error")
	words, recToWord := sfr.GetDeTlv(), sfr.GetDeRecToTlv()
	zz.Assert(len(recToWord) == n, "dict/one-entry-per-record")
	for i := 0; i < n && i < len(recToWord); i++ {
		w := int(recToWord[i])
		zz.Assert(w < len(words), "dict/word-index-valid")
		if w >= len(words) {
			continue
		}
		got := words[w]
		same := len(got) == len(tlvs[i])
		for k := 0; same && k < len(got); k++ {
			if got[k] != tlvs[i][k] {
				same = false
			}
		}
		zz.Observe(zz.Name("same", i), same)
		zz.Assert(same, "dict/every-record-gets-its-own-value-back")
	}
}
