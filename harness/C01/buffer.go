//go:build verif

package utils

// C01-H5: the chunked column buffer behaves like one flat byte slice, also
// across the 16 KiB chunk boundary.
//
//verif:pkg pkg/utils
//verif:entry VerifC01ChunkedBuffer conf=4
//verif:bound (quick tier samples the listed choices: distances {0,1,4}, append lengths {0,2/3,6}, write lengths {1,4}; thorough enumerates all) utils.Buffer pre-filled to 0..4 bytes before the 16 KiB chunk boundary, then two appends of 0..6 free bytes, Len/Slice/At/ReadAll/CopyTo compared with a flat slice, then WriteAt of 1..4 free bytes at a position within 6 bytes of the boundary and compared again

import (
	zz "github.com/siglens/siglens/pkg/zzverif"
)

func verifC01Same(a, b []byte) bool {
	if len(a) != len(b) {
		return false
	}
	for i := range a {
		if a[i] != b[i] {
			return false
		}
	}
	return true
}

func VerifC01ChunkedBuffer() {
	var b Buffer
	var ref []byte
	full := zz.Tier() > 0
	pick := func(name string, quick []int, n int) int {
		if full {
			return zz.Choice(name, n)
		}
		return quick[zz.Choice(name, len(quick))]
	}
	d := pick("distanceToBoundary", []int{0, 1, 4}, 5)
	filler := make([]byte, chunkSize-d)
	for i := range filler {
		filler[i] = byte(i % 251)
	}
	b.Append(filler)
	ref = append(ref, filler...)
	for k := 0; k < 2; k++ {
		n := pick(Name("appendLen", k), []int{0, 2 + k, 6}, 7)
		data := zz.Bytes(Name("data", k), n)
		b.Append(data)
		ref = append(ref, data...)
	}
	zz.Observe("len", b.Len())
	zz.Assert(b.Len() == len(ref), "buffer/len")
	win := chunkSize - 8
	zz.Assert(verifC01Same(b.Slice(win, b.Len()), ref[win:]), "buffer/slice-across-the-boundary")
	zz.Assert(verifC01Same(b.ReadAll()[win:], ref[win:]), "buffer/readall")
	pos := chunkSize - 1 + pick("atPos", []int{0, 1}, 2)
	if pos >= len(ref) {
		pos = len(ref) - 1
	}
	c, err := b.At(pos)
	zz.Assert(err == nil && c == ref[pos], "buffer/at")
	dst := make([]byte, len(ref)+1)
	zz.Assert(b.CopyTo(dst) == nil && verifC01Same(dst[win:len(ref)], ref[win:]), "buffer/copyto")

	wlen := 1 + pick("writeLen", []int{0, 3}, 4)
	wpos := win + 4 + pick("writePos", []int{0, 2, 3, 4, 6}, 8)
	src := zz.Bytes("src", wlen)
	err = b.WriteAt(src, wpos)
	if wpos+wlen > len(ref) {
		zz.Assert(err != nil, "buffer/writeat-past-the-end-is-rejected")
	} else {
		zz.Assert(err == nil, "buffer/writeat-no-error")
		copy(ref[wpos:], src)
	}
	zz.Assert(b.Len() == len(ref) && verifC01Same(b.Slice(win, b.Len()), ref[win:]), "buffer/after-writeat")
}

func Name(p string, i int) string { return zz.Name(p, i) }
