//go:build verif

package writer

// C01-H3b: a column that first appears after the first record of a block (the earlier
// records are backfilled in one step) still gives every record back its own value when the
// block is dictionary-encoded.
//
//verif:pkg pkg/segment/writer
//verif:entry VerifC01DictionaryBlockOfALateColumn conf=4
//verif:bound a column that first appears at record 1..2 (quick) / 1..3 (thorough) of a block, followed by 1..2 records each a 1-byte string, an int64 or missing, free contents; backFillPastRecords + checkAddDictEnc + PackDictEnc on the writer side, ReadDictEnc on the reader side
//verif:outside cardinality above the dictionary limit, zstd, the file layer, the micro-indexes the backfill step initialises

import (
	"github.com/siglens/siglens/pkg/segment/reader/segread/segreader"
	"github.com/siglens/siglens/pkg/segment/structs"
	sutils "github.com/siglens/siglens/pkg/segment/utils"
	zz "github.com/siglens/siglens/pkg/zzverif"
)

func VerifC01DictionaryBlockOfALateColumn() {
	maxLate := 2
	if zz.Tier() > 0 {
		maxLate = 3
	}
	late := 1 + zz.Choice("firstAppearsAtRecord", maxLate)
	more := 1 + zz.Choice("furtherRecords", 2)
	n := late + more
	colWip := InitColWip("/d/seg", "c")
	ss := &SegStore{}
	tlvs := make([][]byte, n)
	ss.backFillPastRecords("c", sutils.SS_DT_SIGNED_NUM, uint16(late), map[string]*BloomIndex{}, map[string]*RangeIndex{}, colWip)
	for i := 0; i < late; i++ {
		tlvs[i] = []byte{sutils.VALTYPE_ENC_BACKFILL[0]}
	}
	for i := late; i < n; i++ {
		var tlv []byte
		backfill := false
		switch zz.Choice(zz.Name("kind", i), 3) {
		case 0:
			tlv = append([]byte{sutils.VALTYPE_ENC_SMALL_STRING[0], 1, 0}, zz.Bytes(zz.Name("str", i), 1)...)
		case 1:
			v := zz.U64(zz.Name("int", i))
			tlv = []byte{sutils.VALTYPE_ENC_INT64[0]}
			for k := 0; k < 8; k++ {
				tlv = append(tlv, byte(v>>(8*uint(k))))
			}
		case 2:
			tlv = []byte{sutils.VALTYPE_ENC_BACKFILL[0]}
			backfill = true
		}
		tlvs[i] = tlv
		ss.checkAddDictEnc(colWip, tlv, uint16(i), 0, backfill)
	}
	PackDictEnc(colWip, uint16(n))
	buf := colWip.cbuf.Slice(0, int(colWip.cbufidx))
	sfr, err := segreader.InitNewSegFileReader(nil, "c", nil, 0, []*structs.BlockSummary{{RecCount: uint16(n)}}, 0, nil)
	zz.Assert(err == nil, "dictlate/reader-init")
	zz.Assert(sfr.ReadDictEnc(buf, 0) == nil, "dictlate/decode-no-error")
	words, recToWord := sfr.GetDeTlv(), sfr.GetDeRecToTlv()
	zz.Assert(len(recToWord) == n, "dictlate/one-entry-per-record")
	for i := 0; i < n && i < len(recToWord); i++ {
		w := int(recToWord[i])
		zz.Assert(w < len(words), "dictlate/word-index-valid")
		if w >= len(words) {
			continue
		}
		got := words[w]
		same := len(got) == len(tlvs[i])
		for k := 0; same && k < len(got); k++ {
			if got[k] != tlvs[i][k] {
				same = false
			}
		}
		zz.Observe(zz.Name("same", i), same)
		zz.Assert(same, "dictlate/every-record-gets-its-own-value-back")
	}
}
