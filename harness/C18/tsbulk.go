//go:build verif

package segread

// C18-H3c: the bulk timestamp loader of the raw-search path over a damaged timestamp file:
// it either reports an error for the segment or returns, for every requested block, that
// block's own timestamps - a block is never silently left out and never filled with
// another block's or altered values.
//
//verif:pkg pkg/segment/reader/segread
//verif:entry VerifC18BulkTimestampsOnDamagedFile conf=0 replay=no go=deferred
//verif:stub-always github.com/siglens/siglens/pkg/segment/reader/segread/segreader.GetBufFromPool verifC18TrGetBuf
//verif:stub-always github.com/siglens/siglens/pkg/segment/reader/segread/segreader.PutBufToPool verifC18TrPutBuf
//verif:stub-always github.com/siglens/siglens/pkg/blob.DownloadSegmentBlob verifC18BulkDownload
//verif:stub-always github.com/siglens/siglens/pkg/blob.SetBlobAsNotInUse verifC18BulkNotInUse
//verif:stub-always github.com/siglens/siglens/pkg/segment/metadata.GetSearchInfoAndSummary verifC18BulkSearchInfo
//verif:stub-always github.com/siglens/siglens/pkg/config.GetTimeStampKey verifC18BulkTsKey
//verif:stub-always github.com/cespare/xxhash.Sum64String verifC18BulkHash
//verif:bound a timestamp column file of three checksummed blocks of two records each (8-bit deltas over a free 16-bit base, free contents); requested blocks: any non-empty subset of the three (adjacent blocks are read with one multi-chunk read); fault: none, one byte at any position (not the first chunk's magic number, see known finding; not the high bytes of a length field) replaced by a different free value, or the file cut at any length; the same in the pre-checksum file format with the file cut at any length; 1 or 2 decoder goroutines
//verif:outside 16/32/64-bit delta encodings, blob download, the interleavings of the decoder goroutines (they are run to completion one after another at WaitGroup.Wait, with the request channel buffered)
//verif:assume crc32 follows the contract model (burst <= 4 bytes detected, different lengths do not collide); the byte-buffer pool hands out fresh buffers; blob download succeeds; the block metadata (offsets, lengths, record counts) comes from an undamaged block summary file

import (
	"os"

	"github.com/siglens/siglens/pkg/segment/structs"
	sutils "github.com/siglens/siglens/pkg/segment/utils"
	"github.com/siglens/siglens/pkg/utils"
	zz "github.com/siglens/siglens/pkg/zzverif"
)

var verifC18BulkBmi *structs.AllBlksMetaInfo

func verifC18BulkDownload(fName string, logError bool) error { return nil }
func verifC18BulkNotInUse(fName string) error                { return nil }
func verifC18BulkTsKey() string                              { return "timestamp" }
func verifC18BulkHash(s string) uint64                       { return 7 }
func verifC18BulkSearchInfo(segkey string) (*structs.AllBlksMetaInfo, []*structs.BlockSummary, error) {
	return verifC18BulkBmi, nil, nil
}

func VerifC18BulkTimestampsOnDamagedFile() {
	const nb = 3
	dir, err := os.MkdirTemp("", "veriftsb")
	zz.Assume(err == nil)
	segKey := dir + "/seg"
	path := segKey + "_7.csg"
	fd, err := os.OpenFile(path, os.O_RDWR|os.O_CREATE, 0644)
	zz.Assume(err == nil)
	csf := &utils.ChecksumFile{Fd: fd}
	allBmi := &structs.AllBlksMetaInfo{CnameDict: map[string]int{"timestamp": 0}, AllBmh: map[uint16]*structs.BlockMetadataHolder{}}
	var want [nb][2]uint64
	summaries := make([]*structs.BlockSummary, nb)
	off := int64(0)
	legacy := zz.Choice("legacyFormat", 2) == 1
	for b := 0; b < nb; b++ {
		base := uint64(zz.U16(zz.Name("base", b)))
		d0, d1 := zz.U8(zz.Name("delta0_", b)), zz.U8(zz.Name("delta1_", b))
		want[b][0], want[b][1] = base+uint64(d0), base+uint64(d1)
		payload := []byte{sutils.TIMESTAMP_TOPDIFF_VARENC[0], structs.TS_Type8, byte(base), byte(base >> 8), 0, 0, 0, 0, 0, 0, d0, d1}
		allBmi.AllBmh[uint16(b)] = &structs.BlockMetadataHolder{BlkNum: uint16(b),
			ColBlockOffAndLen: []structs.ColOffAndLen{{Offset: off, Length: uint32(len(payload))}}}
		summaries[b] = &structs.BlockSummary{RecCount: 2}
		if legacy {
			_, err := fd.WriteAt(payload, off)
			zz.Assume(err == nil)
			off += int64(len(payload))
		} else {
			zz.Assume(csf.AppendChunk(payload) == nil)
			off += int64(12 + len(payload))
		}
	}
	total := int(off)
	fault := zz.Choice("fault", 3)
	zz.Assume(!legacy || fault != 1) // an altered byte in a file without checksums is undetectable by construction
	switch fault {
	case 1:
		pos := zz.Choice("alteredByte", total)
		zz.Assume(pos >= 4)                   // first-chunk magic: legacy fallback, recorded separately
		zz.Assume(pos%24 < 9 || pos%24 >= 12) // not the three high bytes of a chunk's length field
		old := make([]byte, 1)
		_, err := fd.ReadAt(old, int64(pos))
		zz.Assume(err == nil)
		nv := zz.U8("newByte")
		zz.Assume(nv != old[0])
		_, err = fd.WriteAt([]byte{nv}, int64(pos))
		zz.Assume(err == nil)
	case 2:
		cut := zz.Choice("cutAt", total)
		zz.Assume(os.Truncate(path, int64(cut)) == nil)
	}
	zz.Assume(fd.Close() == nil)
	verifC18BulkBmi = allBmi
	mask := 1 + zz.Choice("requestedBlocks", 1<<nb-1)
	blks := map[uint16]struct{}{}
	for b := 0; b < nb; b++ {
		if mask&(1<<b) != 0 {
			blks[uint16(b)] = struct{}{}
		}
	}
	par := int64(1 + zz.Choice("twoDecoders", 2))
	got, err := ReadAllTimestampsForBlock(blks, segKey, summaries, par)
	zz.Observe("failed", err != nil)
	if err != nil {
		return
	}
	for b := 0; b < nb; b++ {
		ts, ok := got[uint16(b)]
		if mask&(1<<b) == 0 {
			zz.Assert(!ok, "tsbulk/only-requested-blocks")
			continue
		}
		zz.Assert(ok, "tsbulk/no-error-means-every-requested-block-is-there")
		if ok {
			zz.Assert(len(ts) >= 2 && ts[0] == want[b][0] && ts[1] == want[b][1], "tsbulk/served-timestamps-are-the-block's-own")
		}
	}
}
