//go:build verif

package microreader

// C18-H2: block-summary decoders on arbitrary (damaged/truncated) files never
// crash the server: they return an error or a value.
//
//verif:pkg pkg/segment/reader/microreader
//verif:entry VerifC18ReadBlockSummaries conf=6
//verif:entry VerifC18ReadMetricsBlockSummaries conf=6
//verif:stub-always github.com/siglens/siglens/pkg/blob.DownloadSegmentBlob verifC18NoDownload
//verif:bound ReadBlockSummaries: a .bsu file of any length 0..40 with free contents (the 16-bit column count of the first block is kept <= 2: it only sizes an allocation); summaryOnly true and false
//verif:bound ReadMetricsBlockSummaries: an .mbsu file of any length 0..24 with free contents
//verif:assume blob download is a no-op (local files)

import (
	"os"

	zz "github.com/siglens/siglens/pkg/zzverif"
)

func verifC18NoDownload(fName string, logError bool) error { return nil }

func verifC18File(name string, maxLen int) (string, []byte, func()) {
	dir, err := os.MkdirTemp("", "verifbsu")
	zz.Assume(err == nil)
	n := zz.Choice("len", maxLen+1)
	data := zz.Bytes("data", n)
	path := dir + "/" + name
	zz.Assume(os.WriteFile(path, data, 0644) == nil)
	return path, data, func() { os.RemoveAll(dir) }
}

func VerifC18ReadBlockSummaries() {
	path, data, cleanup := verifC18File("1.bsu", 40)
	defer cleanup()
	if len(data) > 25 {
		zz.Assume(data[25] == 0 && data[24] <= 2)
	}
	summaryOnly := zz.Choice("summaryOnly", 2) == 1
	var nsum int
	var rerr error
	panicked := zz.Try(func() {
		sums, _, err := ReadBlockSummaries(path, summaryOnly)
		nsum, rerr = len(sums), err
	})
	zz.Observe("panicked", panicked)
	zz.Observe("nsum", nsum)
	zz.Observe("err", rerr != nil)
	zz.Assert(!panicked, "bsu/no-panic-on-damaged-file")
	zz.Assert(nsum <= 2, "bsu/no-invented-blocks")
}

func VerifC18ReadMetricsBlockSummaries() {
	path, _, cleanup := verifC18File("1.mbsu", 24)
	defer cleanup()
	var nsum int
	var rerr error
	panicked := zz.Try(func() {
		sums, err := ReadMetricsBlockSummaries(path)
		nsum, rerr = len(sums), err
	})
	zz.Observe("panicked", panicked)
	zz.Observe("nsum", nsum)
	zz.Observe("err", rerr != nil)
	zz.Assert(!panicked, "mbsu/no-panic-on-damaged-file")
	zz.Assert(nsum <= 2, "mbsu/no-invented-blocks")
}
