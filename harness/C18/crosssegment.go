//go:build verif

package segread

// C18 (damage in one segment does not affect results from others): a reader of a damaged
// segment and a reader of a healthy segment share the process-wide buffer pool. After the
// damaged segment's block load has failed, whatever that reader does next must not change the
// values the healthy segment's reader serves.
//
//verif:pkg pkg/segment/reader/segread
//verif:entry VerifC18DamagedSegmentLeavesOtherSegmentsAlone conf=0 replay=no
//verif:stub-always github.com/siglens/siglens/pkg/segment/reader/segread/segreader.GetBufFromPool verifC18xGetBuf
//verif:stub-always github.com/siglens/siglens/pkg/segment/reader/segread/segreader.PutBufToPool verifC18xPutBuf
//verif:bound segment A: a timestamp file of two checksummed blocks, one byte of block 0's payload altered (or nothing altered); segment B: a column file with one dictionary-encoded block of two records sharing one free one-byte word; sequence: A loads block 0, B loads its block, A loads block 1 (or is closed), B serves its records
//verif:outside other interleavings of the two readers and real concurrency (C11), more than two readers, other block encodings for B (their records are copied out of the pooled read buffer when the block is decompressed)
//verif:assume crc32 follows the contract model; the buffer pool is a free list shared by both readers: a request is served with any free buffer that is large enough or with a new one (free choice; the real memorypool picks by size class)

import (
	"os"

	"github.com/siglens/siglens/pkg/segment/reader/segread/segreader"
	"github.com/siglens/siglens/pkg/segment/structs"
	sutils "github.com/siglens/siglens/pkg/segment/utils"
	"github.com/siglens/siglens/pkg/utils"
	zz "github.com/siglens/siglens/pkg/zzverif"
)

var verifC18xFree [][]byte

func verifC18xGetBuf(size int64) []byte {
	for i, b := range verifC18xFree {
		// the pool keeps buffers in size classes: which request a free buffer serves is its choice
		if int64(cap(b)) >= size && zz.Choice("poolReusesAFreeBuffer", 2) == 1 {
			verifC18xFree = append(verifC18xFree[:i], verifC18xFree[i+1:]...)
			return b[:size]
		}
	}
	return make([]byte, 1024)[:size]
}

func verifC18xPutBuf(buf []byte) error {
	verifC18xFree = append(verifC18xFree, buf[:cap(buf)])
	return nil
}

func VerifC18DamagedSegmentLeavesOtherSegmentsAlone() {
	verifC18xFree = nil
	dir, err := os.MkdirTemp("", "verifxseg")
	zz.Assume(err == nil)
	// segment A: two timestamp blocks
	fdA, err := os.OpenFile(dir+"/a_ts.csg", os.O_RDWR|os.O_CREATE, 0644)
	zz.Assume(err == nil)
	csfA := &utils.ChecksumFile{Fd: fdA}
	bmiA := &structs.AllBlksMetaInfo{CnameDict: map[string]int{"timestamp": 0}, AllBmh: map[uint16]*structs.BlockMetadataHolder{}}
	off := int64(0)
	for b := 0; b < 2; b++ {
		base := uint64(zz.U16(zz.Name("base", b)))
		payload := []byte{sutils.TIMESTAMP_TOPDIFF_VARENC[0], structs.TS_Type8, byte(base), byte(base >> 8), 0, 0, 0, 0, 0, 0, zz.U8(zz.Name("d0_", b)), zz.U8(zz.Name("d1_", b))}
		bmiA.AllBmh[uint16(b)] = &structs.BlockMetadataHolder{BlkNum: uint16(b),
			ColBlockOffAndLen: []structs.ColOffAndLen{{Offset: off, Length: uint32(len(payload))}}}
		zz.Assume(csfA.AppendChunk(payload) == nil)
		off += int64(12 + len(payload))
	}
	if zz.Choice("segmentAIsDamaged", 2) == 1 {
		pos := int64(12 + zz.Choice("alteredPayloadByte", 12))
		old := make([]byte, 1)
		_, err := fdA.ReadAt(old, pos)
		zz.Assume(err == nil)
		nv := zz.U8("newByte")
		zz.Assume(nv != old[0])
		_, err = fdA.WriteAt([]byte{nv}, pos)
		zz.Assume(err == nil)
	}
	// segment B: one dictionary-encoded column block, two records with the same word
	fdB, err := os.OpenFile(dir+"/b_col.csg", os.O_RDWR|os.O_CREATE, 0644)
	zz.Assume(err == nil)
	word := zz.U8("wordOfB")
	blockB := []byte{sutils.ZSTD_DICTIONARY_BLOCK[0], 1, 0, sutils.VALTYPE_ENC_SMALL_STRING[0], 1, 0, word, 2, 0, 0, 0, 1, 0}
	csfB := &utils.ChecksumFile{Fd: fdB}
	zz.Assume(csfB.AppendChunk(blockB) == nil)
	bmiB := &structs.AllBlksMetaInfo{CnameDict: map[string]int{"col": 0}, AllBmh: map[uint16]*structs.BlockMetadataHolder{
		0: {BlkNum: 0, ColBlockOffAndLen: []structs.ColOffAndLen{{Offset: 0, Length: uint32(len(blockB))}}}}}

	trrA, err := InitNewTimeReaderWithFD(fdA, "timestamp", map[uint16]struct{}{0: {}, 1: {}}, map[uint16]uint16{0: 2, 1: 2}, 0, bmiA)
	zz.Assert(err == nil, "crosssegment/init-A")
	sfrB, err := segreader.InitNewSegFileReader(fdB, "col", map[uint16]struct{}{0: {}}, 0, []*structs.BlockSummary{{RecCount: 2}}, 0, bmiB)
	zz.Assert(err == nil, "crosssegment/init-B")
	if trrA == nil || sfrB == nil {
		return
	}

	_, errA0 := trrA.GetAllTimeStampsForBlock(0)
	zz.Observe("firstLoadOfAFailed", errA0 != nil)
	zz.Assert(sfrB.ValidateAndReadBlock(0) == nil, "crosssegment/healthy-segment-loads")
	if zz.Choice("thenAIsClosed", 2) == 1 {
		_ = trrA.Close()
	} else {
		_, _ = trrA.GetAllTimeStampsForBlock(1)
	}
	for r := 0; r < 2; r++ {
		got, err := sfrB.ReadRecord(uint16(r))
		zz.Assert(err == nil && len(got) == 4 && got[0] == sutils.VALTYPE_ENC_SMALL_STRING[0] && got[1] == 1 && got[2] == 0 && got[3] == word,
			"crosssegment/healthy-segment-serves-its-own-values")
	}
}
