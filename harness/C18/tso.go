//go:build verif

package series

// C18-H2: the series-offset (TSO) index lookup on a damaged or truncated index
// never crashes: it finds the series or reports it absent.
//
//verif:pkg pkg/segment/reader/metrics/series
//verif:entry VerifC18TsoLookupOnDamagedIndex conf=6
//verif:bound a TSO buffer of any length 0..40 with free contents (version byte 1 or 2 or anything), the entry count claimed by the block reader free in 0..4, any series id; GetTimeSeriesIterator's first-lookup call shape

import (
	zz "github.com/siglens/siglens/pkg/zzverif"
)

func VerifC18TsoLookupOnDamagedIndex() {
	n := zz.Choice("len", 41)
	buf := zz.Bytes("tso", n)
	nTsids := uint32(zz.Choice("claimedEntries", 5))
	version := byte(0)
	if n > 0 {
		version = buf[0]
	}
	tsid := zz.U64("tsid")
	var found bool
	panicked := zz.Try(func() {
		if nTsids == 0 {
			return
		}
		found, _, _ = getOffsetFromTsoFile(version, 0, nTsids-1, nTsids, tsid, buf)
	})
	zz.Observe("panicked", panicked)
	zz.Observe("found", found)
	zz.Assert(!panicked, "tso/no-panic-on-damaged-index")
}
