//go:build verif

package segread

// C18-H2: the block timestamp decoder on arbitrary bytes returns timestamps or
// an error, never a panic.
//
//verif:pkg pkg/segment/reader/segread
//verif:entry VerifC18TimestampDecoderOnDamagedBlock conf=6
//verif:bound a raw timestamp block of any length 0..20 with free contents, record count claimed by the block summary free in 0..5

import (
	zz "github.com/siglens/siglens/pkg/zzverif"
)

func VerifC18TimestampDecoderOnDamagedBlock() {
	n := zz.Choice("len", 21)
	raw := zz.Bytes("raw", n)
	numRecs := uint16(zz.Choice("claimedRecords", 6))
	var ngot int
	var failed bool
	panicked := zz.Try(func() {
		got, err := convertRawRecordsToTimestamps(raw, numRecs, nil)
		ngot, failed = len(got), err != nil
	})
	zz.Observe("panicked", panicked)
	zz.Observe("failed", failed)
	zz.Assert(!panicked, "timestamps/no-panic-on-damaged-block")
	zz.Assert(failed || ngot >= int(numRecs), "timestamps/success-means-every-claimed-record-was-decoded")
}
