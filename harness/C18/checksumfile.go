//go:build verif

package utils

// C18-H1: a checksummed chunk file under one altered byte or truncation:
// ReadAt returns the original bytes or an error, never altered bytes.
//
//verif:pkg pkg/utils
//verif:entry VerifC18ChecksumFile conf=4
//verif:bound two chunks (AppendChunk of 1..3 bytes, then AppendPartialChunk x2 + Flush of 2..3 bytes) with free payloads; fault: none, one byte at any position replaced by a different free value, or truncation at any length; both chunks read back at their recorded offsets
//verif:outside zstd, bloom, .sst/gob decoding, agile tree, sort index and tags-tree readers; isolation between segments
//verif:assume hash/crc32 over symbolic data is a contract model (burst-error guarantee; different lengths do not collide); the three high bytes of a chunk-length field are not altered (the reader would be asked for up to 4 GiB)

import (
	"os"

	zz "github.com/siglens/siglens/pkg/zzverif"
)

func VerifC18ChecksumFile() {
	dir, err := os.MkdirTemp("", "verifcsf")
	zz.Assume(err == nil)
	defer os.RemoveAll(dir)
	path := dir + "/col.csg"
	fd, err := os.OpenFile(path, os.O_RDWR|os.O_CREATE, 0644)
	zz.Assert(err == nil, "csf/create")
	csf := &ChecksumFile{Fd: fd}
	n1 := 1 + zz.Choice("n1", 3)
	d1 := zz.Bytes("d1", n1)
	zz.Assert(csf.AppendChunk(d1) == nil, "csf/append-no-error")
	off2 := int64(dataOffset + n1)
	n2a, n2b := 1, 1+zz.Choice("n2b", 2)
	d2 := zz.Bytes("d2", n2a+n2b)
	zz.Assert(csf.AppendPartialChunk(d2[:n2a]) == nil && csf.AppendPartialChunk(d2[n2a:]) == nil && csf.Flush() == nil, "csf/partial-append-no-error")
	size := int(off2) + dataOffset + len(d2)
	st, err := fd.Stat()
	zz.Assert(err == nil && int(st.Size()) == size, "csf/size")

	fault := zz.Choice("fault", 3)
	pos := -1
	cut := size
	switch fault {
	case 1:
		pos = zz.Choice("pos", size)
		// not the high bytes of a length field
		zz.Assume(!(pos > lengthOffset && pos < dataOffset))
		zz.Assume(!(pos > int(off2)+lengthOffset && pos < int(off2)+dataOffset))
		old := make([]byte, 1)
		_, err := fd.ReadAt(old, int64(pos))
		zz.Assert(err == nil, "csf/readback")
		nv := zz.U8("newByte")
		zz.Assume(nv != old[0])
		_, err = fd.WriteAt([]byte{nv}, int64(pos))
		zz.Assert(err == nil, "csf/alter")
	case 2:
		cut = zz.Choice("cut", size)
		zz.Assert(fd.Truncate(int64(cut)) == nil, "csf/truncate")
	}

	check := func(data []byte, off int64, chunkEnd int, label string) {
		buf := make([]byte, len(data))
		n, err := csf.ReadAt(buf, off)
		zz.Observe(label+"-n", n)
		ok := err == nil
		zz.Observe(label+"-ok", ok)
		if !ok {
			// an error is always acceptable for a damaged file, but an intact chunk of
			// an otherwise damaged file should still be readable
			if fault == 0 {
				zz.Assert(false, "csf/"+label+"/intact-file-reads")
			}
			return
		}
		same := n == len(data)
		for i := 0; same && i < len(data); i++ {
			if buf[i] != data[i] {
				same = false
			}
		}
		if fault == 1 && pos < 4 {
			// damage to the magic number of the chunk at file offset 0 downgrades
			// the whole file to the legacy (unchecksummed) format
			zz.Assert(same, "csf/"+label+"/first-magic-damaged/no-altered-bytes-served")
		} else {
			zz.Assert(same, "csf/"+label+"/no-altered-bytes-served")
		}
	}
	check(d1, 0, int(off2), "chunk1")
	check(d2, off2, size, "chunk2")
}
