//go:build verif

package segreader

// C18-H3: the column-file reader over checksummed blocks: whatever sequence of
// block loads is issued against a file with one altered byte, a record is only
// ever served (nil error) with its original bytes.
//
//verif:pkg pkg/segment/reader/segread/segreader
//verif:entry VerifC18SegReaderDamagedBlock conf=0
//verif:stub (*github.com/klauspost/compress/zstd.Decoder).DecodeAll verifC18DecodeAll
//verif:stub github.com/siglens/siglens/pkg/segment/reader/segread/segreader.GetBufFromPool verifC18GetBuf
//verif:stub github.com/siglens/siglens/pkg/segment/reader/segread/segreader.PutBufToPool verifC18PutBuf
//verif:bound a column file of two checksummed raw blocks (two short string records each, free contents); fault: none or one byte at any position (not the first chunk's magic number, see known finding; not the high bytes of a length field) replaced by a different free value; three block loads in any order (blocks 0/1 free), records 0 and 1 read after each successful load
//verif:assume zstd DecodeAll is the identity under the engine; the buffer pools are modelled as a first-free-buffer free list private to this reader (a buffer returned to the pool and taken back is the same memory, as in the real memorypool when no other query runs)

import (
	"os"

	"github.com/klauspost/compress/zstd"
	"github.com/siglens/siglens/pkg/segment/structs"
	sutils "github.com/siglens/siglens/pkg/segment/utils"
	"github.com/siglens/siglens/pkg/utils"
	zz "github.com/siglens/siglens/pkg/zzverif"
)

func verifC18DecodeAll(d *zstd.Decoder, input, dst []byte) ([]byte, error) {
	return append(dst, input...), nil
}

// the real pools hand back the first free buffer (recycled memory, not zeroed)
var verifC18Free [][]byte

func verifC18GetBuf(size int64) []byte {
	for i, b := range verifC18Free {
		if int64(cap(b)) >= size {
			verifC18Free = append(verifC18Free[:i], verifC18Free[i+1:]...)
			return b[:size]
		}
	}
	return make([]byte, 1024)[:size]
}

func verifC18PutBuf(buf []byte) error {
	verifC18Free = append(verifC18Free, buf[:cap(buf)])
	return nil
}

func verifC18Rec(name string) []byte {
	n := 1 + zz.Choice(name+".len", 2)
	b := []byte{sutils.VALTYPE_ENC_SMALL_STRING[0], byte(n), 0}
	return append(b, zz.Bytes(name, n)...)
}

func VerifC18SegReaderDamagedBlock() {
	dir, err := os.MkdirTemp("", "verifcsg")
	zz.Assume(err == nil)
	defer os.RemoveAll(dir)
	path := dir + "/col.csg"
	fd, err := os.OpenFile(path, os.O_RDWR|os.O_CREATE, 0644)
	zz.Assume(err == nil)
	csf := &utils.ChecksumFile{Fd: fd}
	var recs [2][2][]byte
	allBmi := &structs.AllBlksMetaInfo{CnameDict: map[string]int{"col": 0}, AllBmh: map[uint16]*structs.BlockMetadataHolder{}}
	bsums := []*structs.BlockSummary{{RecCount: 2}, {RecCount: 2}}
	off := int64(0)
	for b := 0; b < 2; b++ {
		recs[b][0], recs[b][1] = verifC18Rec(zz.Name("r0_", b)), verifC18Rec(zz.Name("r1_", b))
		raw := append(append([]byte{}, recs[b][0]...), recs[b][1]...)
		if !zz.Symbolic() {
			enc, _ := zstd.NewWriter(nil)
			raw = enc.EncodeAll(raw, nil)
		}
		payload := append([]byte{sutils.ZSTD_COMLUNAR_BLOCK[0]}, raw...)
		zz.Assume(csf.AppendChunk(payload) == nil)
		allBmi.AllBmh[uint16(b)] = &structs.BlockMetadataHolder{BlkNum: uint16(b),
			ColBlockOffAndLen: []structs.ColOffAndLen{{Offset: off, Length: uint32(len(payload))}}}
		off += int64(12 + len(payload))
	}
	if zz.Choice("damaged", 2) == 1 {
		// fault location by structure (so that it means the same byte class natively,
		// where the payload is a real zstd frame): chunk, then header byte or payload byte
		chunk := zz.Choice("chunk", 2)
		base := int(allBmi.AllBmh[uint16(chunk)].ColBlockOffAndLen[0].Offset)
		plen := int(allBmi.AllBmh[uint16(chunk)].ColBlockOffAndLen[0].Length)
		var pos int
		if zz.Choice("inPayload", 2) == 1 {
			pos = base + 12 + zz.Choice("payloadByte", plen)
		} else {
			pos = base + zz.Choice("headerByte", 9) // magic, checksum, low length byte
			zz.Assume(pos >= 4)                     // first-chunk magic: legacy fallback, recorded separately
		}
		old := make([]byte, 1)
		_, err := fd.ReadAt(old, int64(pos))
		zz.Assume(err == nil)
		nv := zz.U8("newByte")
		zz.Assume(nv != old[0])
		_, err = fd.WriteAt([]byte{nv}, int64(pos))
		zz.Assume(err == nil)
	}
	sfr, err := InitNewSegFileReader(fd, "col", map[uint16]struct{}{0: {}, 1: {}}, 0, bsums, 0, allBmi)
	zz.Assert(err == nil, "segreader/init")
	same := func(a, b []byte) bool {
		if len(a) != len(b) {
			return false
		}
		for i := range a {
			if a[i] != b[i] {
				return false
			}
		}
		return true
	}
	for step := 0; step < 3; step++ {
		blk := zz.Choice(zz.Name("load", step), 2)
		if sfr.ValidateAndReadBlock(uint16(blk)) != nil {
			continue
		}
		for r := 0; r < 2; r++ {
			got, err := sfr.ReadRecord(uint16(r))
			if err == nil && got != nil {
				zz.Assert(same(got, recs[blk][r]), "segreader/served-record-has-its-original-bytes")
			}
		}
	}
}
