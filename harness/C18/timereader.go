//go:build verif

package segread

// C18-H3b: the timestamp-column reader over a damaged file: whatever blocks are loaded in
// whatever order, timestamps are only ever returned (nil error) if they are the block's own.
//
//verif:pkg pkg/segment/reader/segread
//verif:entry VerifC18TimeReaderDamagedBlock conf=4
//verif:stub github.com/siglens/siglens/pkg/segment/reader/segread/segreader.GetBufFromPool verifC18TrGetBuf
//verif:stub github.com/siglens/siglens/pkg/segment/reader/segread/segreader.PutBufToPool verifC18TrPutBuf
//verif:bound a timestamp column file of two checksummed blocks of two records each (8-bit deltas over a free 16-bit base, free contents); fault: none, one byte at any position (not the first chunk's magic number, see known finding; not the high bytes of a length field) replaced by a different free value, or the file cut at any length; the same two blocks in the pre-checksum file format (no chunk headers) with the file cut at any length; two block loads in any order through GetAllTimeStampsForBlock and GetTimeStampForRecord
//verif:outside 16/32/64-bit delta encodings (the decoder itself is covered by VerifC18TimestampDecoderOnDamagedBlock), blob download, concurrent readers
//verif:assume crc32 follows the contract model (burst <= 4 bytes detected, different lengths do not collide); the byte-buffer pool hands out fresh buffers

import (
	"os"

	"github.com/siglens/siglens/pkg/segment/structs"
	sutils "github.com/siglens/siglens/pkg/segment/utils"
	"github.com/siglens/siglens/pkg/utils"
	zz "github.com/siglens/siglens/pkg/zzverif"
)

func verifC18TrGetBuf(size int64) []byte { return make([]byte, size) }
func verifC18TrPutBuf(buf []byte) error  { return nil }

func VerifC18TimeReaderDamagedBlock() {
	dir, err := os.MkdirTemp("", "veriftrr")
	zz.Assume(err == nil)
	path := dir + "/ts.csg"
	fd, err := os.OpenFile(path, os.O_RDWR|os.O_CREATE, 0644)
	zz.Assume(err == nil)
	csf := &utils.ChecksumFile{Fd: fd}
	allBmi := &structs.AllBlksMetaInfo{CnameDict: map[string]int{"timestamp": 0}, AllBmh: map[uint16]*structs.BlockMetadataHolder{}}
	var want [2][2]uint64
	off := int64(0)
	// files written before checksums were introduced have no chunk headers; a cut is still detectable (short read)
	legacy := zz.Choice("legacyFormat", 2) == 1
	for b := 0; b < 2; b++ {
		base := uint64(zz.U16(zz.Name("base", b)))
		d0, d1 := zz.U8(zz.Name("delta0_", b)), zz.U8(zz.Name("delta1_", b))
		want[b][0], want[b][1] = base+uint64(d0), base+uint64(d1)
		payload := []byte{sutils.TIMESTAMP_TOPDIFF_VARENC[0], structs.TS_Type8, byte(base), byte(base >> 8), 0, 0, 0, 0, 0, 0, d0, d1}
		allBmi.AllBmh[uint16(b)] = &structs.BlockMetadataHolder{BlkNum: uint16(b),
			ColBlockOffAndLen: []structs.ColOffAndLen{{Offset: off, Length: uint32(len(payload))}}}
		if legacy {
			_, err := fd.WriteAt(payload, off)
			zz.Assume(err == nil)
			off += int64(len(payload))
		} else {
			zz.Assume(csf.AppendChunk(payload) == nil)
			off += int64(12 + len(payload))
		}
	}
	total := int(off)
	fault := zz.Choice("fault", 3)
	zz.Assume(!legacy || fault != 1) // an altered byte in a file without checksums is undetectable by construction
	switch fault {
	case 1:
		pos := zz.Choice("alteredByte", total)
		zz.Assume(pos >= 4)                   // first-chunk magic: legacy fallback, recorded separately
		zz.Assume(pos%24 < 9 || pos%24 >= 12) // not the three high bytes of a chunk's length field
		old := make([]byte, 1)
		_, err := fd.ReadAt(old, int64(pos))
		zz.Assume(err == nil)
		nv := zz.U8("newByte")
		zz.Assume(nv != old[0])
		_, err = fd.WriteAt([]byte{nv}, int64(pos))
		zz.Assume(err == nil)
	case 2:
		cut := zz.Choice("cutAt", total)
		zz.Assume(os.Truncate(path, int64(cut)) == nil)
	}
	trr, err := InitNewTimeReaderWithFD(fd, "timestamp", map[uint16]struct{}{0: {}, 1: {}}, map[uint16]uint16{0: 2, 1: 2}, 0, allBmi)
	zz.Assert(err == nil, "timereader/init")
	for step := 0; step < 2; step++ {
		blk := zz.Choice(zz.Name("load", step), 2)
		if zz.Choice(zz.Name("wholeBlock", step), 2) == 1 {
			got, err := trr.GetAllTimeStampsForBlock(uint16(blk))
			if err == nil {
				zz.Assert(len(got) == 2 && got[0] == want[blk][0] && got[1] == want[blk][1], "timereader/served-timestamps-are-the-block's-own")
			}
		} else {
			rec := zz.Choice(zz.Name("record", step), 2)
			got, err := trr.GetTimeStampForRecord(uint16(blk), uint16(rec), 0)
			if err == nil {
				zz.Assert(got == want[blk][rec], "timereader/served-timestamp-is-the-record's-own")
			}
		}
	}
}
