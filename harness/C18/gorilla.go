//go:build verif

package compress

// C18-H2: the Gorilla series decoder on arbitrary bytes terminates with
// datapoints or an error, never a panic or an endless loop.
//
//verif:pkg pkg/segment/writer/metrics/compress
//verif:entry VerifC18GorillaDecoderOnDamagedSeries conf=6
//verif:bound a compressed series of any length 0..12 bytes with free contents, up to 4 Next() calls

import (
	"bytes"

	zz "github.com/siglens/siglens/pkg/zzverif"
)

func VerifC18GorillaDecoderOnDamagedSeries() {
	n := zz.Choice("len", 13)
	raw := zz.Bytes("raw", n)
	points := 0
	panicked := zz.Try(func() {
		it, err := NewDecompressIterator(bytes.NewReader(raw))
		if err != nil {
			return
		}
		for k := 0; k < 4 && it.Next(); k++ {
			points++
		}
	})
	zz.Observe("panicked", panicked)
	zz.Observe("points", points)
	zz.Assert(!panicked, "gorilla/no-panic-on-damaged-series")
}
