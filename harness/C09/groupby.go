//go:build verif

package mresults

// C09 (by / without): the output group of a series is determined by exactly the named
// labels' values: `by (host)` groups on the value of the label called host - not on a label
// whose name merely ends with "host" - and `without (host)` keeps every other label.
//
//verif:pkg pkg/segment/results/mresults
//verif:entry VerifC09GroupByLabel conf=6
//verif:bound a series id m{...} carrying any subset of the labels vhost, path, host, h (in that order), each with a free one-character value over {a, b, '{'} (a brace as in a route label /users/{id}); aggregation by (host), by (h), without (host) or without (h); getAggSeriesId
//verif:outside label values containing ',' or ':' (the series-id text format itself is ambiguous there, like the TSID serialisation), several group-by labels, the numeric aggregation of the grouped series (VerifC09ReduceAcrossSeries)

import (
	"github.com/siglens/siglens/pkg/segment/structs"
	zz "github.com/siglens/siglens/pkg/zzverif"
)

func VerifC09GroupByLabel() {
	names := []string{"vhost", "path", "host", "h"}
	present := make([]bool, len(names))
	values := make([]string, len(names))
	seriesId := "m{"
	first := true
	for i, n := range names {
		present[i] = zz.Choice(zz.Name("has_", i), 2) == 1
		if !present[i] {
			continue
		}
		values[i] = string([]byte{zz.ByteIn(zz.Name("value_", i), "ab{")})
		if !first {
			seriesId += ","
		}
		first = false
		seriesId += n + ":" + values[i]
	}
	fieldIdx := 2 + zz.Choice("field", 2) // host or h
	without := zz.Choice("without", 2) == 1
	got := getAggSeriesId(seriesId, &structs.Aggregation{GroupByFields: []string{names[fieldIdx]}, Without: without})
	zz.Observe("group", got)
	want := "m{"
	if without {
		first = true
		for i, n := range names {
			if !present[i] || i == fieldIdx {
				continue
			}
			if !first {
				want += ","
			}
			first = false
			want += n + ":" + values[i]
		}
		zz.Assert(got == want, "groupby/without-keeps-exactly-the-other-labels")
	} else {
		if present[fieldIdx] {
			want += names[fieldIdx] + ":" + values[fieldIdx]
		}
		zz.Assert(got == want, "groupby/by-groups-on-the-named-label's-own-value")
	}
}
