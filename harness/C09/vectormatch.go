//go:build verif

package utils

// C09 (arithmetic between vectors): two series are paired by `on (labels)` / `ignoring
// (labels)` iff the values of the matching labels are equal - the whole values, whatever
// characters they contain.
//
//verif:pkg pkg/integrations/prometheus/utils
//verif:entry VerifC09VectorMatchingLabelSet conf=6
//verif:bound two series ids m{host:<v>,job:<j> with host and job values of 1..2 free bytes over {a, b, '-', '.'}; on (host), ignoring (host), on (host, job); ExtractMatchingLabelSet with Go's regexp interpreted from source
//verif:outside label values containing ',' ':' or '{' (the series-id text format is ambiguous there), the arithmetic itself (SetFinalResult), group_left/group_right cardinality checks

import (
	zz "github.com/siglens/siglens/pkg/zzverif"
)

func verifC09Val(name string) string {
	n := 1 + zz.Choice(name+"Len", 2)
	b := make([]byte, n)
	for i := range b {
		b[i] = zz.ByteIn(zz.Name(name, i), "ab-.")
	}
	return string(b)
}

func VerifC09VectorMatchingLabelSet() {
	h1, j1 := verifC09Val("host1_"), verifC09Val("job1_")
	h2, j2 := verifC09Val("host2_"), verifC09Val("job2_")
	id1 := "m{host:" + h1 + ",job:" + j1
	id2 := "m{host:" + h2 + ",job:" + j2
	switch zz.Choice("matching", 3) {
	case 0:
		s1 := ExtractMatchingLabelSet(id1, []string{"host"}, true)
		s2 := ExtractMatchingLabelSet(id2, []string{"host"}, true)
		zz.Observe("same", s1 == s2)
		zz.Assert((s1 == s2) == (h1 == h2), "vectormatch/on-pairs-series-iff-the-label-values-are-equal")
	case 1:
		s1 := ExtractMatchingLabelSet(id1, []string{"host"}, false)
		s2 := ExtractMatchingLabelSet(id2, []string{"host"}, false)
		zz.Observe("same", s1 == s2)
		zz.Assert((s1 == s2) == (j1 == j2), "vectormatch/ignoring-pairs-series-iff-the-other-label-values-are-equal")
	case 2:
		s1 := ExtractMatchingLabelSet(id1, []string{"host", "job"}, true)
		s2 := ExtractMatchingLabelSet(id2, []string{"host", "job"}, true)
		zz.Observe("same", s1 == s2)
		zz.Assert((s1 == s2) == (h1 == h2 && j1 == j2), "vectormatch/on-pairs-series-iff-the-label-values-are-equal")
	}
}
