//go:build verif

package mresults

// C09 (numeric core): downsampling and aggregation of a series equal their
// definition, and the answer does not depend on how the series' datapoints were
// split across blocks (open block / rotated block) before being merged.
//
//verif:pkg pkg/segment/results/mresults
//verif:entry VerifC09DownsampleAggregate conf=0
//verif:bound one series of 1..2 datapoints with free uint32 timestamps and integer-valued float values (|v| <= 2^20, so sums are exact), downsample interval 1 s or 60 s (thorough: also 3600 s, and min <= avg <= max), aggregator sum/min/max/avg; the datapoints arrive in one Series or split at any point into two Series joined by Merge
//verif:outside PromQL parsing and planning, label matchers (tags-tree reader, regex), by/without grouping over series-id strings, vector-matching binary operators, quantile/topk/stddev, range functions, cross-series avg weighting
//verif:assume float values are integers of magnitude <= 2^20 (addition exact, so sum/avg do not depend on order); min <= avg <= max is asserted only under this assumption and only in the thorough tier (FP division queries)

import (
	"math"

	"github.com/siglens/siglens/pkg/segment/structs"
	sutils "github.com/siglens/siglens/pkg/segment/utils"
	zz "github.com/siglens/siglens/pkg/zzverif"
)

func verifC09Series(ds uint32, fn sutils.AggregateFunctions) *Series {
	conv := fn
	if fn == sutils.Avg {
		conv = sutils.Sum
	}
	return &Series{entries: make([]Entry, initial_len, extend_capacity), len: initial_len, dsSeconds: ds, convertedDownsampleAggFn: conv}
}

func VerifC09DownsampleAggregate() {
	// three free points were tried for the thorough tier: the float-sum obligations (order of summation after
	// Merge vs. the specification's order) did not finish in any back end within the 7000 s budget
	n := 1 + zz.Choice("n", 2)
	dsChoices := []uint32{1, 60}
	if zz.Tier() > 0 {
		dsChoices = []uint32{1, 60, 3600}
	}
	ds := dsChoices[zz.Choice("ds", len(dsChoices))]
	fn := []sutils.AggregateFunctions{sutils.Sum, sutils.Min, sutils.Max, sutils.Avg}[zz.Choice("agg", 4)]
	ts := make([]uint32, n)
	vs := make([]float64, n)
	for i := 0; i < n; i++ {
		ts[i] = zz.U32(zz.Name("t", i))
		vs[i] = float64(zz.IntRange(zz.Name("v", i), -(1 << 20), 1<<20))
	}
	split := zz.Choice("split", n+1) // first `split` points in series A, the rest in B
	a, b := verifC09Series(ds, fn), verifC09Series(ds, fn)
	for i := 0; i < n; i++ {
		if i < split {
			a.AddEntry(ts[i], vs[i])
		} else {
			b.AddEntry(ts[i], vs[i])
		}
	}
	zz.Assert(a.Merge(b) == nil, "series/merge-no-error")
	dss, err := a.Downsample(structs.Downsampler{Aggregator: structs.Aggregation{AggregatorFunction: fn}})
	zz.Assert(err == nil, "series/downsample-no-error")
	got, err := dss.AggregateFromSingleTimeseries()
	zz.Assert(err == nil, "series/aggregate-no-error")

	// specification: bucket of a point = floor(t/ds)*ds; value = reducer over the bucket
	nb := 0
	for i := 0; i < n; i++ {
		bi := ts[i] / ds * ds
		first := true
		for j := 0; j < i; j++ {
			if ts[j]/ds*ds == bi {
				first = false
			}
		}
		if !first {
			continue
		}
		nb++
		var sum, mn, mx float64
		cnt := 0
		for j := 0; j < n; j++ {
			if ts[j]/ds*ds != bi {
				continue
			}
			if cnt == 0 || vs[j] < mn {
				mn = vs[j]
			}
			if cnt == 0 || vs[j] > mx {
				mx = vs[j]
			}
			sum += vs[j]
			cnt++
		}
		val, ok := got[bi]
		zz.Assert(ok, "series/every-bucket-with-a-point-is-present")
		var want float64
		switch fn {
		case sutils.Sum:
			want = sum
		case sutils.Min:
			want = mn
		case sutils.Max:
			want = mx
		case sutils.Avg:
			want = sum / float64(cnt)
			if zz.Tier() > 0 {
				zz.Assert(mn <= val && val <= mx, "series/min-le-avg-le-max")
			}
		}
		zz.Assert(math.Float64bits(val) == math.Float64bits(want) || val == want, "series/bucket-value-equals-the-aggregate-of-its-points")
	}
	zz.Assert(len(got) == nb, "series/no-extra-buckets")
}
