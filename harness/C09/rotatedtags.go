//go:build verif

package tagstree

// C09 (same answer for open and rotated data, tag values): the iterator over a rotated tags
// tree - the source of label values for =~ / !~ matchers and by / without wildcards - yields
// every value the tree was built from, each with exactly the series that carry it, whatever
// the length of the last value in the file.
//
//verif:pkg pkg/segment/reader/metrics/tagstree
//verif:load pkg/segment/writer/metrics
//verif:entry VerifC09RotatedTagsTreeYieldsEveryValue conf=0 replay=no
//verif:bridge verifC09EncodeTagsTree github.com/siglens/siglens/pkg/segment/writer/metrics.VerifC09EncodeTagsTree
//verif:bound one metric, one tag key, 1..3 series each carrying one of the string values "a", "bb", "cccccc", "dd" or the number 7 (free choice, so values may be shared); the tree is built with TagTree.AddTagValue, encoded with the writer's encodeTagsTree, written to a file and read back through TagTreeReader.getValueIteratorForMetric / TagValueIterator.next
//verif:outside several metrics or tag keys in one file, the file locking of initTagsTreeReader (the reader is constructed on the opened file), the matcher evaluation on the values (VerifC09RegexMatcherAnchoring)
//verif:assume none

import (
	"os"

	jp "github.com/buger/jsonparser"
	"github.com/cespare/xxhash"
	sutils "github.com/siglens/siglens/pkg/segment/utils"
	wmetrics "github.com/siglens/siglens/pkg/segment/writer/metrics"
	"github.com/siglens/siglens/pkg/utils"
	zz "github.com/siglens/siglens/pkg/zzverif"
)

func verifC09EncodeTagsTree(tt *wmetrics.TagTree) ([]byte, error) { panic("bridged by the engine") }

func VerifC09RotatedTagsTreeYieldsEveryValue() {
	vals := []string{"a", "bb", "cccccc", "dd", "7"}
	n := 1 + zz.Choice("series", 3)
	tt := wmetrics.InitTagsTree("host")
	want := map[string]map[uint64]bool{}
	for i := 0; i < n; i++ {
		k := zz.Choice(zz.Name("value", i), len(vals))
		tsid := uint64(100 + i)
		vt := jp.String
		if vals[k] == "7" {
			vt = jp.Number
		}
		zz.Assume(tt.AddTagValue([]byte("m"), []byte(vals[k]), vt, tsid) == nil)
		if want[vals[k]] == nil {
			want[vals[k]] = map[uint64]bool{}
		}
		want[vals[k]][tsid] = true
	}
	buf, err := verifC09EncodeTagsTree(tt)
	zz.Assume(err == nil && len(buf) >= 5)
	dir, err := os.MkdirTemp("", "veriftt")
	zz.Assume(err == nil)
	zz.Assume(os.WriteFile(dir+"/host", buf, 0644) == nil)
	fd, err := os.OpenFile(dir+"/host", os.O_RDONLY, 0644)
	zz.Assume(err == nil)
	metaSize := utils.BytesToUint32LittleEndian(buf[1:5])
	ttr := &TagTreeReader{fd: fd, metadataBuf: buf[5:metaSize]}
	itr, found, err := ttr.getValueIteratorForMetric(xxhash.Sum64String("m"))
	zz.Assert(err == nil && found && itr != nil, "rotatedtags/metric-found")
	if err != nil || !found || itr == nil {
		return
	}
	seen := map[string]int{}
	for step := 0; step < 8; step++ {
		_, raw, tsids, rawType, more := itr.next()
		if !more {
			break
		}
		key := string(raw)
		if len(rawType) == 1 && rawType[0] != sutils.VALTYPE_ENC_SMALL_STRING[0] && len(raw) == 8 { // a number: 8 raw bytes
			key = "7"
			zz.Assert(utils.BytesToInt64LittleEndian(raw) == 7, "rotatedtags/number-value")
		}
		seen[key]++
		zz.Assert(want[key] != nil && len(tsids) == len(want[key]), "rotatedtags/value-comes-with-exactly-its-series")
		for _, t := range tsids {
			zz.Assert(want[key][t], "rotatedtags/value-comes-with-exactly-its-series")
		}
	}
	for v := range want {
		zz.Assert(seen[v] == 1, "rotatedtags/every-value-of-the-tree-is-yielded-once")
	}
}
