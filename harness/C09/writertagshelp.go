//go:build verif

package metrics

// helper for the C09 rotated-tags-tree harness: the on-disk encoding of one tag key's tree.
//
//verif:pkg pkg/segment/writer/metrics

func VerifC09EncodeTagsTree(tt *TagTree) ([]byte, error) { return tt.encodeTagsTree() }
