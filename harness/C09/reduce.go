//go:build verif

package mresults

// C09 (aggregation across series): the per-group, per-timestamp reducer returns the
// aggregate of the member series' values: max/min are attained by a member and bound all
// members, sum is the sum, avg is the sum divided by the number of datapoints.
//
//verif:pkg pkg/segment/results/mresults
//verif:entry VerifC09ReduceAcrossSeries conf=8
//verif:bound a group of 1..3 member series at one timestamp, each with a free finite float64 running value (any sign, any magnitude) and a free running count in 1..2^20; aggregators min, max, sum, avg
//verif:outside count/group/quantile/topk/stddev reducers, how members are assigned to groups (by/without label sets), vector-matching binary operators
//verif:assume sum and avg are compared with the same left-to-right float summation the reducer uses (floating-point addition is not associative, so 'the sum' is only defined up to order); min and max are checked against their order-free definition

import (
	"math"

	sutils "github.com/siglens/siglens/pkg/segment/utils"
	zz "github.com/siglens/siglens/pkg/zzverif"
)

func VerifC09ReduceAcrossSeries() {
	n := 1 + zz.Choice("members", 3)
	entries := make([]RunningEntry, n)
	for i := range entries {
		v := zz.F64(zz.Name("value", i))
		zz.Assume(v == v && v >= -math.MaxFloat64 && v <= math.MaxFloat64)
		entries[i] = RunningEntry{runningVal: v, runningCount: zz.U64Range(zz.Name("count", i), 1, 1<<20)}
	}
	fn := []sutils.AggregateFunctions{sutils.Min, sutils.Max, sutils.Sum, sutils.Avg}[zz.Choice("agg", 4)]
	got, err := reduceRunningEntries(entries, fn, 0)
	zz.Assert(err == nil, "reduce/no-error")
	zz.Observe("got", got)
	switch fn {
	case sutils.Min, sutils.Max:
		attained := false
		for i := range entries {
			if entries[i].runningVal == got {
				attained = true
			}
			if fn == sutils.Min {
				zz.Assert(got <= entries[i].runningVal, "reduce/min-is-below-every-member")
			} else {
				zz.Assert(got >= entries[i].runningVal, "reduce/max-is-above-every-member")
			}
		}
		zz.Assert(attained, "reduce/min-max-is-the-value-of-a-member")
	case sutils.Sum, sutils.Avg:
		sum := 0.0
		cnt := uint64(0)
		for i := range entries {
			sum += entries[i].runningVal
			cnt += entries[i].runningCount
		}
		if fn == sutils.Avg {
			sum = sum / float64(cnt)
		}
		zz.Assert(math.Float64bits(got) == math.Float64bits(sum) || got == sum, "reduce/sum-and-avg-of-the-members")
	}
}
