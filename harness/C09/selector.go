//go:build verif

package tsidtracker

// C09 (selectors): a selector with several matchers returns exactly the series that satisfy
// all of them: the series tracker is fed one matcher's matches after the other and must end
// up with the intersection - also when a later matcher matches nothing.
//
//verif:pkg pkg/segment/results/mresults/tsid
//verif:entry VerifC09SelectorIntersectsMatchers conf=0 replay=no
//verif:stub-always github.com/valyala/bytebufferpool.Get verifC09Buf
//verif:bound three series, each carrying label a with value x or y or not at all, and label b likewise; matcher 1 selects a free subset of {a=x, a=y}, matcher 2 a free subset of {b=x, b=y} (as the tags-tree lookup would return them: value -> series ids, values without series left out or present and empty); BulkAdd + FinishBlock per matcher, as runTSIDSearch drives it
//verif:outside the tags-tree lookup that produces each matcher's matches (hash lookups over files), wildcard matchers (BulkAddStar), the group-id text accumulated per series (VerifC09GroupByLabel)
//verif:assume the byte-buffer pool is replaced by fresh buffers

import (
	"github.com/valyala/bytebufferpool"

	zz "github.com/siglens/siglens/pkg/zzverif"
)

func verifC09Buf() *bytebufferpool.ByteBuffer { return &bytebufferpool.ByteBuffer{} }

func VerifC09SelectorIntersectsMatchers() {
	const n = 3
	values := []string{"x", "y"}
	var labelA, labelB [n]int // 0 = absent, 1 = x, 2 = y
	for i := 0; i < n; i++ {
		labelA[i] = zz.Choice(zz.Name("seriesLabelA", i), 3)
		labelB[i] = zz.Choice(zz.Name("seriesLabelB", i), 3)
	}
	var selA, selB [2]bool
	for v := 0; v < 2; v++ {
		selA[v] = zz.Choice(zz.Name("matcherAselects", v), 2) == 1
		selB[v] = zz.Choice(zz.Name("matcherBselects", v), 2) == 1
	}
	keepEmpty := zz.Choice("valuesWithoutSeriesArePresentAndEmpty", 2) == 1
	build := func(label [n]int, sel [2]bool) map[string]map[uint64]struct{} {
		m := map[string]map[uint64]struct{}{}
		for v := 0; v < 2; v++ {
			if !sel[v] {
				continue
			}
			ids := map[uint64]struct{}{}
			for i := 0; i < n; i++ {
				if label[i] == v+1 {
					ids[uint64(i+1)] = struct{}{}
				}
			}
			if len(ids) > 0 || keepEmpty {
				m[values[v]] = ids
			}
		}
		return m
	}
	tr, err := InitTSIDTracker(2)
	zz.Assume(err == nil)
	zz.Assert(tr.BulkAdd(build(labelA, selA), "m", "a") == nil, "selector/no-error")
	zz.Assert(tr.FinishBlock() == nil, "selector/no-error")
	zz.Assert(tr.BulkAdd(build(labelB, selB), "m", "b") == nil, "selector/no-error")
	zz.Assert(tr.FinishBlock() == nil, "selector/no-error")
	tr.FinishAllMatches()
	got := tr.GetAllTSIDs()
	for i := 0; i < n; i++ {
		want := labelA[i] != 0 && selA[labelA[i]-1] && labelB[i] != 0 && selB[labelB[i]-1]
		_, has := got[uint64(i+1)]
		zz.Assert(has == want, "selector/series-returned-iff-it-satisfies-every-matcher")
	}
	zz.Assert(tr.GetNumMatchedTSIDs() <= n, "selector/no-invented-series")
}
