//go:build verif

package tagstree

// C09: regex label matchers (=~, !~) are fully anchored: a series is selected
// iff its whole label value matches the pattern.
//
//verif:pkg pkg/segment/reader/metrics/tagstree
//verif:entry VerifC09RegexMatcherAnchoring conf=6
//verif:bound acceptRegexVal with the concrete patterns "web|db", "a.*" and "ab" against a free label value of 0..4 lower-case/digit/dash bytes, operators =~ and !~; Go's regexp package is interpreted from its source
//verif:outside other regex patterns (a symbolic pattern cannot be executed), the tags-tree file format, matcher combination across labels

import (
	sutils "github.com/siglens/siglens/pkg/segment/utils"
	zz "github.com/siglens/siglens/pkg/zzverif"
)

func VerifC09RegexMatcherAnchoring() {
	n := zz.Choice("len", 5)
	val := make([]byte, n)
	for i := range val {
		val[i] = zz.ByteIn(zz.Name("v", i), "abdew1-")
	}
	pi := zz.Choice("pattern", 3)
	pattern := []string{"web|db", "a.*", "ab"}[pi]
	neg := zz.Choice("negated", 2) == 1
	op := sutils.Regex
	if neg {
		op = sutils.NegRegex
	}
	got, err := acceptRegexVal(pattern, val, op)
	zz.Observe("got", got)
	zz.Assert(err == nil, "matcher/no-error")
	var full bool
	s := string(val)
	switch pi {
	case 0:
		full = s == "web" || s == "db"
	case 1:
		full = n >= 1 && val[0] == 'a'
	case 2:
		full = s == "ab"
	}
	zz.Assert(got == (full != neg), "matcher/selected-iff-the-whole-value-matches")
}
