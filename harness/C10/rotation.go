//go:build verif

package metrics

// C10 (rotation): every datapoint block whose append to the write-ahead log completed is
// replayed exactly once, in order, by crash recovery - also when the log of the open block
// was rotated into several files in between.
//
//verif:pkg pkg/segment/writer/metrics
//verif:entry VerifC10WalRotationKeepsAppendedDatapoints conf=0 replay=no
//verif:stub-always (*github.com/klauspost/compress/zstd.Encoder).EncodeAll verifC10rEncodeAll
//verif:stub-always (*github.com/klauspost/compress/zstd.Decoder).DecodeAll verifC10rDecodeAll
//verif:stub-always github.com/siglens/siglens/pkg/segment/writer/metrics.getWALBaseDir verifC10rBaseDir
//verif:stub-always github.com/siglens/siglens/pkg/segment/writer/metrics.getBaseMetricsKey verifC10rMetricsKey
//verif:stub-always (*github.com/siglens/siglens/pkg/segment/writer/metrics.MetricsBlock).encodeDatapoint verifC10rEncodeDatapoint
//verif:stub-always (*github.com/siglens/siglens/pkg/segment/writer/metrics.MetricsBlock).flushBlock verifC10rFlushBlock
//verif:bound one open metrics block; 1..7 datapoints with free timestamp/value/series id passed to appendToWALBuffer with the in-memory batch size set to 2 and the rotation threshold set to 1 byte (rotate after every batch), 70 bytes (rotate after every second batch) or unreachable (no rotation); the process dies before any one of the file-system operations of those appends (thorough: the write it dies in torn at any byte) or after the last one, nothing is flushed, and RecoverWALData runs on the same directory
//verif:outside the periodic flush goroutine, several blocks/segments/shards in one directory, more than nine rotations (file-name order), rebuilding the recovered block and the flush itself (encodeDatapoint/flushBlock are recording stubs; that the flush is requested after the last replayed datapoint is checked), torn writes (VerifC10TruncatedPrefix)
//verif:assume zstd EncodeAll/DecodeAll are identity stubs; getWALBaseDir returns the harness directory; the file system model applies operations in order

import (
	"math"

	"github.com/klauspost/compress/zstd"
	sutils "github.com/siglens/siglens/pkg/segment/utils"
	"github.com/siglens/siglens/pkg/segment/writer/metrics/wal"
	zz "github.com/siglens/siglens/pkg/zzverif"
)

var verifC10rRecovered []wal.WalDatapoint
var verifC10rFlushedAt int // datapoints replayed into the block when it was last flushed

func verifC10rEncodeAll(e *zstd.Encoder, src, dst []byte) []byte { return append(dst, src...) }
func verifC10rDecodeAll(d *zstd.Decoder, input, dst []byte) ([]byte, error) {
	return append(dst, input...), nil
}
func verifC10rBaseDir() string                                      { return "/data/wal-ts/" }
func verifC10rMetricsKey(suffix uint64, mId string) (string, error) { return "/data/ts/k", nil }
func verifC10rEncodeDatapoint(mb *MetricsBlock, timestamp uint32, dpVal float64, tsid uint64) error {
	verifC10rRecovered = append(verifC10rRecovered, wal.WalDatapoint{Timestamp: timestamp, DpVal: dpVal, Tsid: tsid})
	return nil
}
func verifC10rFlushBlock(mb *MetricsBlock, basePath string, suffix uint64, bufId uint16) error {
	verifC10rFlushedAt = len(verifC10rRecovered)
	return nil
}

func VerifC10WalRotationKeepsAppendedDatapoints() {
	verifC10rRecovered, verifC10rFlushedAt = nil, 0
	sutils.WAL_BLOCK_FLUSH_SIZE = 2
	sutils.MAX_WAL_FILE_SIZE_BYTES = []uint64{1, 70, 1 << 40}[zz.Choice("rotationThreshold", 3)]
	mb := initMetricsBlock("0", 1, 0)
	mb.dpWalState.dpsInWalMem = make([]wal.WalDatapoint, 2)
	zz.Assume(mb.initNewDpWal() == nil)
	k := 1 + zz.Choice("datapoints", 7)
	in := make([]wal.WalDatapoint, k)
	for i := 0; i < k; i++ {
		in[i] = wal.WalDatapoint{Timestamp: zz.U32(zz.Name("ts", i)), DpVal: math.Float64frombits(zz.U64(zz.Name("val", i))), Tsid: zz.U64(zz.Name("tsid", i))}
	}
	// the process may die before any file-system operation of the append path (0 = it survives them all);
	// in the thorough tier the write it dies in may be torn at any byte
	crashAt := zz.Choice("crashBeforeOp", 48)
	zz.TornWrites(zz.Tier() > 0)
	returned := 0
	crashed := zz.RunCrash(func() {
		zz.CrashBefore(crashAt)
		for i := 0; i < k; i++ {
			zz.Assert(mb.appendToWALBuffer(in[i].Timestamp, in[i].DpVal, in[i].Tsid) == nil, "rotation/append-no-error")
			returned = i + 1
		}
	})
	zz.Assume(crashed == (crashAt != 0)) // crash points beyond the last operation are the no-crash case
	zz.Assert(zz.FsOps() <= 47, "rotation/crash-point-range-covers-every-operation")
	// the batch still in memory is lost with the process; every batch whose Append completed must come back,
	// the batch being appended when the process died may or may not
	atLeast, atMost := 0, 0
	if returned > 0 {
		atLeast = 2 * ((returned - 1) / 2)
	}
	atMost = atLeast
	if crashed && returned < k {
		atMost = 2 * (returned / 2)
	}
	RecoverWALData()
	n := len(verifC10rRecovered)
	zz.Assert(n >= atLeast && n <= atMost && n%2 == 0, "rotation/replays-exactly-the-appended-batches")
	// recovery deletes the log files it has read, so everything it replayed must have been handed to the block flush
	zz.Assert(verifC10rFlushedAt == n, "rotation/every-replayed-datapoint-is-flushed-before-its-log-is-gone")
	for i := 0; i < n && i < k; i++ {
		g := verifC10rRecovered[i]
		zz.Assert(g.Timestamp == in[i].Timestamp && g.Tsid == in[i].Tsid &&
			math.Float64bits(g.DpVal) == math.Float64bits(in[i].DpVal), "rotation/datapoints-exact-and-in-order")
	}
}
