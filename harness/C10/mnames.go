//go:build verif

package wal

// C10 (metric-names log): every metric name of every completed append is replayed, in order,
// whatever its length - names beyond 255 bytes included (the length prefix is 16 bits wide).
//
//verif:pkg pkg/segment/writer/metrics/wal
//verif:entry VerifC10MetricNamesLogReplaysEveryName conf=4
//verif:stub (*github.com/klauspost/compress/zstd.Encoder).EncodeAll verifC10EncodeAll
//verif:stub (*github.com/klauspost/compress/zstd.Decoder).DecodeAll verifC10DecodeAll
//verif:bound one or two appended batches of one or two names each; a name is 1, 2, 255, 256 or 300 bytes long, its first byte free, the rest 'x'; Wal.Append with the MetricNameEncoder, then MNameWalIterator.Next until the end
//verif:outside empty batches and empty names, truncation and corruption of this file (the framing is the datapoint log's: VerifC10TruncatedPrefix / VerifC10CorruptedByte), names beyond 65535 bytes
//verif:assume zstd EncodeAll/DecodeAll are identity stubs under the engine; crc32 of concrete data is computed for real

import (
	"os"

	zz "github.com/siglens/siglens/pkg/zzverif"
)

func VerifC10MetricNamesLogReplaysEveryName() {
	dir, err := os.MkdirTemp("", "verifmn")
	zz.Assume(err == nil)
	path := dir + "/names.wal"
	w, err := NewWAL(path, NewMetricNameEncoder())
	zz.Assume(err == nil && w != nil)
	lens := []int{1, 2, 255, 256, 300}
	var want []string
	nb := 1 + zz.Choice("batches", 2)
	for b := 0; b < nb; b++ {
		nn := 1 + zz.Choice(zz.Name("names", b), 2)
		batch := make([]string, nn)
		for k := 0; k < nn; k++ {
			l := lens[zz.Choice(zz.Name("len", b*2+k), len(lens))]
			raw := make([]byte, l)
			for i := range raw {
				raw[i] = 'x'
			}
			raw[0] = zz.ByteIn(zz.Name("first", b*2+k), "abc")
			batch[k] = string(raw)
		}
		zz.Assert(w.Append(batch) == nil, "mnames/append-succeeds")
		want = append(want, batch...)
	}
	zz.Assume(w.Close() == nil)
	it, err := NewMNameWalReader(path)
	zz.Assert(err == nil && it != nil, "mnames/log-opens")
	if err != nil || it == nil {
		return
	}
	var got []string
	for step := 0; step < 8; step++ {
		name, err := it.Next()
		zz.Assert(err == nil, "mnames/replay-no-error")
		if err != nil || name == nil {
			break
		}
		got = append(got, *name)
	}
	zz.Observe("replayed", len(got))
	zz.Assert(len(got) == len(want), "mnames/every-appended-name-is-replayed")
	for i := 0; i < len(got) && i < len(want); i++ {
		zz.Assert(got[i] == want[i], "mnames/names-exact-and-in-order")
	}
}
