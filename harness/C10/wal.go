//go:build verif

package wal

// C10: the metrics write-ahead log replays a faithful prefix after a cut at any
// byte, and a damaged block is rejected rather than decoded.
//
//verif:pkg pkg/segment/writer/metrics/wal
//verif:entry VerifC10TruncatedPrefix conf=4
//verif:entry VerifC10CorruptedByte conf=0 replay=no
//verif:stub (*github.com/klauspost/compress/zstd.Encoder).EncodeAll verifC10EncodeAll
//verif:stub (*github.com/klauspost/compress/zstd.Decoder).DecodeAll verifC10DecodeAll
//verif:bound datapoint log: 1..2 appended blocks of 1..2 datapoints with free timestamp/value/tsid; the file is cut at every length 0..size (symbolic, case-split); iteration to exhaustion
//verif:bound corruption: two blocks of one datapoint each, one byte at any position of the 65-byte file (except the three high bytes of a block-length field) replaced by a different free value; for the 4-byte length field only 'no panic, nothing returned that was not appended' is asserted (a length change re-frames the stream)
//verif:outside RecoverWALData (directory listing, block rebuild and flush), periodic flush timing, WAL deletion on rotation, metric-name and meta-entry logs beyond their identical framing; hash/crc32 is a contract model under the engine (see assume)
//verif:assume zstd EncodeAll/DecodeAll are identity stubs under the engine (contract Decode(Encode(x)) = x); natively the real zstd runs
//verif:assume hash/crc32 over symbolic data is an uninterpreted value per distinct message constrained by the CRC-32 burst guarantee (equal-length messages differing only within 4 consecutive bytes have different checksums); concrete data is checksummed for real
//verif:assume the file system model applies writes in order; a cut at byte L models a crash after L bytes reached the file

import (
	"math"
	"os"

	"github.com/klauspost/compress/zstd"
	zz "github.com/siglens/siglens/pkg/zzverif"
)

func verifC10EncodeAll(e *zstd.Encoder, src, dst []byte) []byte { return append(dst, src...) }

func verifC10DecodeAll(d *zstd.Decoder, input, dst []byte) ([]byte, error) {
	return append(dst, input...), nil
}

func verifC10Size(path string) int {
	st, err := os.Stat(path)
	if err != nil {
		return -1
	}
	return int(st.Size())
}

func verifC10Drain(path string, max int) (got []WalDatapoint, openErr bool, endErr bool) {
	it, err := NewWALReader(path)
	if err != nil {
		return nil, true, false
	}
	defer it.Close()
	for i := 0; i <= max; i++ {
		dp, err := it.Next()
		if err != nil {
			return got, false, true
		}
		if dp == nil {
			return got, false, false
		}
		got = append(got, *dp)
	}
	zz.Assert(false, "wal/iteration-returns-more-datapoints-than-were-appended")
	return got, false, false
}

func VerifC10TruncatedPrefix() {
	dir, err := os.MkdirTemp("", "verifwal")
	zz.Assume(err == nil)
	defer os.RemoveAll(dir)
	path := dir + "/dp.wal"
	w, err := NewWAL(path, NewDataPointEncoder())
	zz.Assert(err == nil, "wal/create-no-error")
	nblocks := 1 + zz.Choice("blocks", 2)
	var all [][]WalDatapoint
	var boundary []int
	for b := 0; b < nblocks; b++ {
		n := 1 + zz.Choice(zz.Name("n", b), 2)
		dps := make([]WalDatapoint, n)
		for i := range dps {
			dps[i] = WalDatapoint{Timestamp: zz.U32(zz.Name("ts", b*4+i)), DpVal: math.Float64frombits(zz.U64(zz.Name("val", b*4+i))), Tsid: zz.U64(zz.Name("tsid", b*4+i))}
		}
		zz.Assert(w.Append(dps) == nil, "wal/append-no-error")
		all = append(all, dps)
		boundary = append(boundary, verifC10Size(path))
	}
	_ = w.Close()
	size := verifC10Size(path)
	zz.Assert(size == boundary[nblocks-1] && size > 1, "wal/size-accounted")
	cut := zz.Choice("cut", size+1)
	zz.Assert(os.Truncate(path, int64(cut)) == nil, "wal/truncate-ok")

	var want []WalDatapoint
	for b := 0; b < nblocks; b++ {
		if boundary[b] <= cut {
			want = append(want, all[b]...)
		}
	}
	got, openErr, _ := verifC10Drain(path, 5)
	zz.Observe("ngot", len(got))
	if cut == 0 {
		zz.Assert(openErr, "wal/empty-file-rejected")
		return
	}
	zz.Assert(!openErr, "wal/version-byte-accepted")
	zz.Assert(len(got) == len(want), "wal/replays-exactly-the-complete-blocks")
	for i := 0; i < len(got) && i < len(want); i++ {
		zz.Assert(got[i].Timestamp == want[i].Timestamp && got[i].Tsid == want[i].Tsid &&
			math.Float64bits(got[i].DpVal) == math.Float64bits(want[i].DpVal), "wal/datapoints-exact-and-in-order")
	}
}

func VerifC10CorruptedByte() {
	dir, err := os.MkdirTemp("", "verifwal")
	zz.Assume(err == nil)
	defer os.RemoveAll(dir)
	path := dir + "/dp.wal"
	w, err := NewWAL(path, NewDataPointEncoder())
	zz.Assert(err == nil, "wal/create-no-error")
	dps := make([]WalDatapoint, 2)
	var boundary [2]int
	for b := range dps {
		dps[b] = WalDatapoint{Timestamp: zz.U32(zz.Name("ts", b)), DpVal: math.Float64frombits(zz.U64(zz.Name("val", b))), Tsid: zz.U64(zz.Name("tsid", b))}
		zz.Assert(w.Append([]WalDatapoint{dps[b]}) == nil, "wal/append-no-error")
		boundary[b] = verifC10Size(path)
	}
	_ = w.Close()
	data, err := os.ReadFile(path)
	zz.Assert(err == nil && len(data) == 1+2*(4+4+4+20), "wal/layout")
	pos := zz.Choice("pos", len(data))
	// the three high bytes of a length field would make the reader allocate up to
	// 4 GiB; only the low byte of the length is altered (stated bound)
	for _, start := range []int{1, boundary[0]} {
		zz.Assume(!(pos > start && pos < start+4))
	}
	nv := zz.U8("newByte")
	zz.Assume(nv != data[pos])
	data[pos] = nv
	zz.Assert(os.WriteFile(path, data, 0644) == nil, "wal/rewrite-ok")
	got, openErr, endErr := verifC10Drain(path, 4)
	if pos == 0 {
		zz.Assert(openErr, "wal/bad-version-rejected")
		return
	}
	zz.Assert(!openErr, "wal/version-byte-accepted")
	same := func(a, b WalDatapoint) bool {
		return a.Timestamp == b.Timestamp && a.Tsid == b.Tsid && math.Float64bits(a.DpVal) == math.Float64bits(b.DpVal)
	}
	// whatever is returned is a prefix of what was appended, never an altered datapoint
	zz.Assert(len(got) <= 2, "wal/no-invented-datapoints")
	for i := range got {
		zz.Assert(same(got[i], dps[i]), "wal/only-appended-datapoints-are-returned")
	}
	inLenField := func(blockStart int) bool { return pos >= blockStart && pos < blockStart+4 }
	switch {
	case pos < boundary[0]:
		if !inLenField(1) {
			zz.Assert(len(got) == 0 && endErr, "wal/damaged-first-block-and-everything-after-it-rejected")
		}
	default:
		zz.Assert(len(got) >= 1, "wal/blocks-before-the-damage-are-replayed")
		if !inLenField(boundary[0]) {
			zz.Assert(len(got) == 1 && endErr, "wal/damaged-block-rejected")
		}
	}
}
