//go:build verif

package processor

// helpers for the C05 paging harness (IQR construction and reading)
//
//verif:pkg pkg/segment/query/processor

import (
	"github.com/siglens/siglens/pkg/segment/query/iqr"
	sutils "github.com/siglens/siglens/pkg/segment/utils"
	zz "github.com/siglens/siglens/pkg/zzverif"
)

func verifC05Batches(T int) []int {
	n1 := zz.Choice("n1", T+1)
	n2 := zz.Choice("n2", T-n1+1)
	return []int{n1, n2, T - n1 - n2}
}

func verifC05IQR(cols map[string][]int64, from, n int) *iqr.IQR {
	iq := iqr.NewIQR(0)
	kv := map[string][]sutils.CValueEnclosure{}
	for name, vals := range cols {
		col := make([]sutils.CValueEnclosure, n)
		for i := 0; i < n; i++ {
			col[i] = sutils.CValueEnclosure{Dtype: sutils.SS_DT_SIGNED_NUM, CVal: vals[from+i]}
		}
		kv[name] = col
	}
	if n > 0 {
		if err := iq.AppendKnownValues(kv); err != nil {
			zz.Assert(false, "iqr/append-known-values")
		}
	}
	return iq
}

func verifC05Read(out *iqr.IQR, col string) []int64 {
	if out == nil || out.NumberOfRecords() == 0 {
		return nil
	}
	vals, err := out.ReadColumn(col)
	if err != nil {
		zz.Assert(false, "iqr/read-column")
		return nil
	}
	res := make([]int64, len(vals))
	for i, v := range vals {
		res[i] = v.CVal.(int64)
	}
	return res
}

func verifC05Same(got, want []int64) bool {
	if len(got) != len(want) {
		return false
	}
	for i := range got {
		if got[i] != want[i] {
			return false
		}
	}
	return true
}
