//go:build verif

package processor

// C05 (sort over mixed-type columns): the comparator orders numbers, strings and missing
// values consistently - it is antisymmetric and transitive over any mixture, numbers come
// before strings, missing values come last whatever the direction - so adjacent results can
// never be out of order.
//
//verif:pkg pkg/segment/query/processor
//verif:entry VerifC05SortComparatorMixedKinds conf=8
//verif:bound three values, each an integer from {-1, 0, 5} (free numbers are covered by VerifC05SortComparator; here the interplay of kinds matters), a non-numeric string of 1..2 letters over {x, y} or a missing value; ascending and descending; op "" or "str"
//verif:outside strings that look like numbers (rank decided by strconv.ParseFloat on the text), ip/other ranks, multi-key sorts (the keys are compared one after the other by the same function)

import (
	sutils "github.com/siglens/siglens/pkg/segment/utils"
	zz "github.com/siglens/siglens/pkg/zzverif"
)

func verifC05Mixed(name string) (*sutils.CValueEnclosure, int) {
	switch zz.Choice(name+".kind", 3) {
	case 0:
		v := []int64{-1, 0, 5}[zz.Choice(name+".i", 3)] // concrete: numbers are compared as floats (free values: VerifC05SortComparator)
		return &sutils.CValueEnclosure{Dtype: sutils.SS_DT_SIGNED_NUM, CVal: v}, 0
	case 1:
		n := 1 + zz.Choice(name+".len", 2)
		b := make([]byte, n)
		for i := range b {
			b[i] = zz.ByteIn(zz.Name(name+".s", i), "xy")
		}
		return &sutils.CValueEnclosure{Dtype: sutils.SS_DT_STRING, CVal: string(b)}, 1
	}
	return &sutils.CValueEnclosure{Dtype: sutils.SS_DT_BACKFILL}, 2
}

func VerifC05SortComparatorMixedKinds() {
	a, ka := verifC05Mixed("a")
	b, kb := verifC05Mixed("b")
	c, _ := verifC05Mixed("c")
	asc := zz.Choice("asc", 2) == 1
	op := []string{"", "str"}[zz.Choice("op", 2)]
	ab, ba := compareValues(a, b, asc, op), compareValues(b, a, asc, op)
	bc, ac := compareValues(b, c, asc, op), compareValues(a, c, asc, op)
	zz.Observe("ab", uint8(ab))
	zz.Assert((ab == LESS) == (ba == GREATER) && (ab == EQUAL) == (ba == EQUAL), "sortmixed/antisymmetric")
	zz.Assert(!(ab == LESS && bc == LESS) || ac == LESS, "sortmixed/less-is-transitive")
	zz.Assert(!(ab == EQUAL && bc == EQUAL) || ac == EQUAL, "sortmixed/equivalence-is-transitive")
	zz.Assert(!(ab == LESS && bc == EQUAL) || ac == LESS, "sortmixed/order-respects-equivalence")
	if ka != 2 && kb == 2 {
		zz.Assert(ab == LESS, "sortmixed/missing-values-sort-last-in-both-directions")
	}
	if op == "" && asc && ka == 0 && kb == 1 {
		zz.Assert(ab == LESS, "sortmixed/numbers-before-strings-ascending")
	}
}
