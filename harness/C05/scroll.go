//go:build verif

package processor

// C05 (pagination; the same obligation as C12's scroll harness): the page starting at `from`
// is produced by head(from+size) followed by the scroll stage, which must skip exactly the
// first `from` rows of the stream and pass every later row on, however the rows arrive in
// batches - so that walking the pages returns every match exactly once.
//
//verif:pkg pkg/segment/query/processor
//verif:entry VerifC05ScrollPagesPartitionTheStream conf=0 replay=no
//verif:stub-always github.com/siglens/siglens/pkg/segment/query.IncRecordsSent verifC05scNoProgress
//verif:bound 0..5 rows with free int64 values cut into up to three batches of any sizes; scroll offset 0..6
//verif:outside the head stage in front of it (VerifC05HeadPaging), the searcher that produces the batches, progress accounting (stubbed)

import (
	"github.com/siglens/siglens/pkg/segment/query/iqr"
	sutils "github.com/siglens/siglens/pkg/segment/utils"
	zz "github.com/siglens/siglens/pkg/zzverif"
)

func verifC05scNoProgress(qid uint64, n uint64) error { return nil }

func VerifC05ScrollPagesPartitionTheStream() {
	T := zz.Choice("rows", 6)
	a := make([]int64, T)
	for i := range a {
		a[i] = zz.I64(zz.Name("a", i))
	}
	from := zz.Choice("from", 7)
	n1 := zz.Choice("n1", T+1)
	n2 := zz.Choice("n2", T-n1+1)
	p := &scrollProcessor{scrollFrom: uint64(from)}
	var got []int64
	pos := 0
	for _, n := range []int{n1, n2, T - n1 - n2} {
		if n == 0 {
			continue
		}
		col := make([]sutils.CValueEnclosure, n)
		for i := 0; i < n; i++ {
			col[i] = sutils.CValueEnclosure{Dtype: sutils.SS_DT_SIGNED_NUM, CVal: a[pos+i]}
		}
		pos += n
		batch := iqr.NewIQR(0)
		zz.Assume(batch.AppendKnownValues(map[string][]sutils.CValueEnclosure{"a": col}) == nil)
		out, err := p.Process(batch)
		zz.Assert(err == nil, "scroll/no-error")
		if out != nil && out.NumberOfRecords() > 0 {
			vals, err := out.ReadColumn("a")
			zz.Assert(err == nil, "scroll/read-column")
			for _, v := range vals {
				got = append(got, v.CVal.(int64))
			}
		}
	}
	want := 0
	if from < T {
		want = T - from
	}
	zz.Observe("ngot", len(got))
	zz.Assert(len(got) == want, "scroll/skips-exactly-the-first-from-rows")
	for i := 0; i < len(got) && i < want; i++ {
		zz.Assert(got[i] == a[from+i], "scroll/later-rows-pass-in-order")
	}
}
