//go:build verif

package processor

// C05-H2: the sort comparator is a strict weak order consistent with the
// numeric order of the values, so adjacent results are never out of order.
//
//verif:pkg pkg/segment/query/processor
//verif:summarize github.com/siglens/siglens/pkg/segment/query/processor.compareFloat
//verif:entry VerifC05SortComparator conf=8
//verif:entry VerifC05SortComparatorOrder tier=thorough conf=4
//verif:entry VerifC05HeadPaging conf=6
//verif:bound compareValues on three numeric values, each an int64 with |v| <= 2^53 or a finite float64 with |v| <= 2^53 (including values closer than 1e-4), ascending and descending, op in {"", "num", "auto"}
//verif:bound head paging: T = 0..4 rows in up to three batches, page size 1..3: pages from=0,k,2k.. partition the rows
//verif:outside the block scheduler (fetchRRCs: goroutine fan-out per block, readers over segment files), the sort-index sub-search merge, MergeIQRs over real record readers, tie order among equal keys, string and mixed-type ranks

import (
	"io"

	"github.com/siglens/siglens/pkg/segment/structs"
	sutils "github.com/siglens/siglens/pkg/segment/utils"
	zz "github.com/siglens/siglens/pkg/zzverif"
)

func verifC05Num(name string) (*sutils.CValueEnclosure, float64) {
	const lim = 1 << 53
	if zz.Choice(name+".isFloat", 2) == 1 {
		f := zz.F64(name + ".f")
		zz.Assume(f == f && -lim <= f && f <= lim)
		return &sutils.CValueEnclosure{Dtype: sutils.SS_DT_FLOAT, CVal: f}, f
	}
	v := zz.I64(name + ".i")
	zz.Assume(-lim <= v && v <= lim)
	return &sutils.CValueEnclosure{Dtype: sutils.SS_DT_SIGNED_NUM, CVal: v}, float64(v)
}

func VerifC05SortComparator() {
	a, fa := verifC05Num("a")
	b, fb := verifC05Num("b")
	asc := zz.Choice("asc", 2) == 1
	op := ""
	if zz.Tier() > 0 {
		op = []string{"", "num", "auto"}[zz.Choice("op", 3)]
	}
	ab := compareValues(a, b, asc, op)
	zz.Observe("ab", uint8(ab))
	if asc {
		zz.Assert(!(fa < fb) || ab == LESS, "sortcmp/smaller-value-sorts-first-ascending")
		zz.Assert(!(fa > fb) || ab == GREATER, "sortcmp/larger-value-sorts-last-ascending")
	} else {
		zz.Assert(!(fa > fb) || ab == LESS, "sortcmp/larger-value-sorts-first-descending")
		zz.Assert(!(fa < fb) || ab == GREATER, "sortcmp/smaller-value-sorts-last-descending")
	}
	zz.Assert(fa != fb || ab == EQUAL, "sortcmp/equal-values-compare-equal")
}

// VerifC05SortComparatorOrder: antisymmetry and transitivity (thorough tier; the
// consistency with the numeric order above already implies both for a total order).
func VerifC05SortComparatorOrder() {
	a, _ := verifC05Num("a")
	b, _ := verifC05Num("b")
	c, _ := verifC05Num("c")
	asc := zz.Choice("asc", 2) == 1
	ab, ba := compareValues(a, b, asc, ""), compareValues(b, a, asc, "")
	bc, ac := compareValues(b, c, asc, ""), compareValues(a, c, asc, "")
	zz.Assert((ab == LESS) == (ba == GREATER) && (ab == EQUAL) == (ba == EQUAL), "sortcmp/antisymmetric")
	zz.Assert(!(ab == LESS && bc == LESS) || ac == LESS, "sortcmp/less-is-transitive")
	zz.Assert(!(ab == EQUAL && bc == EQUAL) || ac == EQUAL, "sortcmp/equivalence-is-transitive")
}

// VerifC05HeadPaging: head with limit = from+size followed by discarding `from`
// rows is how pages are cut; consecutive pages partition the rows.
func VerifC05HeadPaging() {
	T := zz.Choice("T", 5)
	a := make([]int64, T)
	for i := range a {
		a[i] = zz.I64(zz.Name("a", i))
	}
	size := 1 + zz.Choice("size", 3)
	batches := verifC05Batches(T)
	var all []int64
	for from := 0; from <= T; from += size {
		p := &headProcessor{options: &structs.HeadExpr{MaxRows: uint64(from + size)}}
		var got []int64
		pos := 0
		done := false
		for _, n := range batches {
			if done || n == 0 {
				continue
			}
			out, err := p.Process(verifC05IQR(map[string][]int64{"a": a}, pos, n))
			pos += n
			zz.Assert(err == nil || err == io.EOF, "paging/no-error")
			got = append(got, verifC05Read(out, "a")...)
			done = err == io.EOF
		}
		if from < len(got) {
			all = append(all, got[from:]...)
		}
	}
	zz.Observe("nall", len(all))
	zz.Assert(verifC05Same(all, a), "paging/pages-return-every-row-exactly-once-in-order")
}
