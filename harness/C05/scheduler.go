//go:build verif

package processor

// C05-H1: the block/segment scheduler only releases records that no unseen
// segment or block can precede, whatever the overlaps of their time ranges.
//
//verif:pkg pkg/segment/query/processor
//verif:entry VerifC05SegmentRounds conf=0 replay=no
//verif:entry VerifC05NextBlocks conf=6
//verif:bound segment rounds: 2 (quick) / 3 (thorough) segment requests with free, arbitrarily overlapping time ranges in the order initializeQSRs establishes, one arbitrary record time per segment, newest-first and oldest-first modes, two successive rounds
//verif:bound block batches: 1..3 blocks with free Low<=High in scheduler order, batch size 1..3, and 3 sorted record timestamps against a free release time
//verif:assume the segment requests are ordered as initializeQSRs orders them (newest end first / oldest start first)

import (
	dtu "github.com/siglens/siglens/pkg/common/dtypeutils"
	"github.com/siglens/siglens/pkg/segment/query"
	"github.com/siglens/siglens/pkg/segment/structs"
	sutils "github.com/siglens/siglens/pkg/segment/utils"
	zz "github.com/siglens/siglens/pkg/zzverif"
)

func VerifC05SegmentRounds() {
	n := 2
	if zz.Tier() > 0 {
		n = 3
	}
	mode := []sortMode{recentFirst, recentLast}[zz.Choice("mode", 2)]
	qsrs := make([]*query.QuerySegmentRequest, n)
	start, end, rec := make([]uint64, n), make([]uint64, n), make([]uint64, n)
	for i := 0; i < n; i++ {
		start[i], end[i], rec[i] = zz.U64(zz.Name("start", i)), zz.U64(zz.Name("end", i)), zz.U64(zz.Name("record", i))
		zz.Assume(start[i] <= rec[i] && rec[i] <= end[i])
		if i > 0 {
			if mode == recentFirst {
				zz.Assume(end[i-1] >= end[i])
			} else {
				zz.Assume(start[i-1] <= start[i])
			}
		}
		q := &query.QuerySegmentRequest{}
		q.SetSegKey(zz.Name("seg", i))
		q.SetTimeRange(&dtu.TimeRange{StartEpochMs: start[i], EndEpochMs: end[i]})
		qsrs[i] = q
	}
	s := &Searcher{sortMode: mode, qsrs: qsrs}
	s.initUnprocessedQSRs()
	searched := make([]bool, n) // selected in some round so far
	for round := 0; round < 2; round++ {
		sel, err := s.getQSRSToProcess()
		zz.Assert(err == nil, "rounds/no-error")
		if s.gotAllSegments {
			break
		}
		cut := s.cutOffTimestampInMs
		for i, q := range qsrs {
			for _, x := range sel {
				if x == q {
					searched[i] = true
				}
			}
			// every record that may be released this round (at or beyond the cut-off)
			// lives in a segment that has been searched
			releasable := rec[i] >= cut
			if mode == recentLast {
				releasable = rec[i] <= cut
			}
			zz.Assert(!releasable || searched[i], "rounds/released-records-come-only-from-searched-segments")
			// a segment leaves the to-do list only after it has been searched
			still := false
			for e := s.unprocessedQSRs.Front(); e != nil; e = e.Next() {
				if e.Value.(*query.QuerySegmentRequest) == q {
					still = true
				}
			}
			zz.Assert(still || searched[i], "rounds/no-segment-dropped-unsearched")
		}
		zz.Assert(s.unprocessedQSRs.Len() < n-round || n-round <= 0, "rounds/each-round-finishes-at-least-one-segment")
	}
}

func VerifC05NextBlocks() {
	n := 1 + zz.Choice("nblocks", 3)
	mode := []sortMode{recentFirst, recentLast}[zz.Choice("mode", 2)]
	blocks := make([]*block, n)
	for i := range blocks {
		lo, hi := zz.U64(zz.Name("low", i)), zz.U64(zz.Name("high", i))
		zz.Assume(lo <= hi)
		blocks[i] = &block{BlockSummary: &structs.BlockSummary{LowTs: lo, HighTs: hi}, BlkNum: uint16(i)}
		if i > 0 {
			if mode == recentFirst {
				zz.Assume(blocks[i-1].HighTs >= hi)
			} else {
				zz.Assume(blocks[i-1].LowTs <= lo)
			}
		}
	}
	maxBlocks := 1 + zz.Choice("maxBlocks", 3)
	next, endTime, err := getNextBlocks(blocks, maxBlocks, mode)
	zz.Observe("nnext", len(next))
	zz.Observe("endTime", endTime)
	zz.Assert(err == nil && len(next) >= 1 && len(next) <= n, "nextblocks/returns-a-nonempty-prefix")
	for i := len(next); i < n; i++ {
		// no record of a block left for later can precede the release time
		if mode == recentFirst {
			zz.Assert(blocks[i].HighTs <= endTime, "nextblocks/later-blocks-hold-nothing-newer-than-the-release-time")
		} else {
			zz.Assert(blocks[i].LowTs >= endTime, "nextblocks/later-blocks-hold-nothing-older-than-the-release-time")
		}
	}
	for i := range next {
		zz.Assert(next[i] == blocks[i], "nextblocks/prefix-in-order")
	}
	// release: exactly the records not past the release time
	rr := make([]*sutils.RecordResultContainer, 3)
	for i := range rr {
		rr[i] = &sutils.RecordResultContainer{TimeStamp: zz.U64(zz.Name("rts", i))}
		if i > 0 {
			if mode == recentFirst {
				zz.Assume(rr[i-1].TimeStamp >= rr[i].TimeStamp)
			} else {
				zz.Assume(rr[i-1].TimeStamp <= rr[i].TimeStamp)
			}
		}
	}
	last := zz.U64("releaseTime")
	valid, err := getValidRRCs(rr, last, mode)
	zz.Assert(err == nil, "validrrcs/no-error")
	for i, r := range rr {
		ok := r.TimeStamp >= last
		if mode == recentLast {
			ok = r.TimeStamp <= last
		}
		zz.Assert((i < len(valid)) == ok, "validrrcs/exactly-the-records-not-past-the-release-time")
	}
}
