//go:build verif

package blockresults

// C05 (sort with a limit over raw records): the bounded heap that keeps the best N records
// while blocks and segments stream in returns exactly the first N records of the requested
// order, whatever the arrival order.
//
//verif:pkg pkg/segment/results/blockresults
//verif:entry VerifC05SortLimitKeepsTheBestN conf=8
//verif:bound 1..4 (quick) / 1..5 (thorough) records with free finite float64 sort values arriving in any order, limit 1..3, ascending or descending; SortResults.Add for each, then GetSortedResults
//verif:outside how the sort value is extracted from a record (extractSortVals), remote records, ties are compared by value only (which of two equal-valued records is kept is not fixed)

import (
	"math"

	"github.com/siglens/siglens/pkg/segment/structs"
	sutils "github.com/siglens/siglens/pkg/segment/utils"
	zz "github.com/siglens/siglens/pkg/zzverif"
)

func VerifC05SortLimitKeepsTheBestN() {
	maxN := 4
	if zz.Tier() > 0 {
		maxN = 5
	}
	n := 1 + zz.Choice("records", maxN)
	k := 1 + zz.Choice("limit", 3)
	asc := zz.Choice("ascending", 2) == 1
	vals := make([]float64, n)
	s, err := InitializeSort(uint64(k), &structs.SortRequest{ColName: "c", Ascending: asc})
	zz.Assert(err == nil, "sortlimit/init")
	for i := 0; i < n; i++ {
		v := zz.F64(zz.Name("v", i))
		zz.Assume(v == v && v >= -math.MaxFloat64 && v <= math.MaxFloat64)
		vals[i] = v
		s.Add(&sutils.RecordResultContainer{SortColumnValue: v, RecordNum: uint16(i)})
	}
	got := s.GetSortedResults()
	want := n
	if k < n {
		want = k
	}
	zz.Observe("ngot", len(got))
	zz.Assert(len(got) == want, "sortlimit/exactly-min-of-limit-and-input-rows")
	// specification by rank: the j-th result is the value with exactly j values ordered before it (ties aside)
	for j := 0; j < len(got) && j < want; j++ {
		g := got[j].SortColumnValue
		zz.Observe(zz.Name("got", j), g)
		before, notAfter := 0, 0
		for i := 0; i < n; i++ {
			if (asc && vals[i] < g) || (!asc && vals[i] > g) {
				before++
			}
			if (asc && vals[i] <= g) || (!asc && vals[i] >= g) {
				notAfter++
			}
		}
		zz.Assert(before <= j && j < notAfter, "sortlimit/j-th-result-has-rank-j-in-the-requested-order")
	}
}
