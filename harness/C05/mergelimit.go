//go:build verif

package processor

// C05 (merge with limit): a `sort N` / `head N` evaluated over several already-sorted
// streams returns exactly the first N rows of the merged order, however the rows are
// distributed over the streams and over the batches each stream delivers.
//
//verif:pkg pkg/segment/query/processor
//verif:entry VerifC05MergeLimit conf=6
//verif:stub-always github.com/siglens/siglens/pkg/utils.isNil verifC05IsNil
//verif:bound two input streams of 1..3 rows each (at most 4 rows in total quick, 5 thorough), ascending free int64 keys within each stream, each stream delivered in one or two batches and ending either with a separate end-of-stream answer or together with its last batch; limit absent or 1..total+1; DataProcessor.getStreamInput is called until it reports the end; optionally DataProcessor.Rewind and a second complete read
//verif:outside more than two streams, descending/multi-key comparators (the comparator is the caller's), the processors fed by the merge, parallel fetch scheduling (goroutines run inline under the engine)

import (
	"io"

	"github.com/siglens/siglens/pkg/segment/query/iqr"
	"github.com/siglens/siglens/pkg/segment/structs"
	"github.com/siglens/siglens/pkg/utils"
	zz "github.com/siglens/siglens/pkg/zzverif"
)

// utils.isNil inspects its argument with reflect; the only Option built here holds a uint64
func verifC05IsNil(value interface{}) bool { return value == nil }

type verifC05Stream struct {
	vals        []int64
	cuts        []int // batch k holds rows cuts[k]..cuts[k+1]
	pos         int
	eofWithLast bool
}

func (s *verifC05Stream) Fetch() (*iqr.IQR, error) {
	if s.pos >= len(s.cuts)-1 {
		return nil, io.EOF
	}
	b := verifC05IQR(map[string][]int64{"a": s.vals}, s.cuts[s.pos], s.cuts[s.pos+1]-s.cuts[s.pos])
	s.pos++
	if s.pos == len(s.cuts)-1 && s.eofWithLast {
		return b, io.EOF
	}
	return b, nil
}
func (s *verifC05Stream) Rewind()        { s.pos = 0 }
func (s *verifC05Stream) Cleanup()       {}
func (s *verifC05Stream) String() string { return "verif stream" }

func verifC05Less(r1, r2 *iqr.Record) bool {
	if r1 == nil {
		return false
	} else if r2 == nil {
		return true
	}
	v1, err1 := r1.ReadColumn("a")
	v2, err2 := r2.ReadColumn("a")
	if err1 != nil || err2 != nil {
		return false
	}
	return v1.CVal.(int64) < v2.CVal.(int64)
}

func verifC05MakeStream(name string, vals []int64) *CachedStream {
	n := len(vals)
	first := n
	if n > 1 {
		first = 1 + zz.Choice(name+"FirstBatch", n) // 1..n rows in the first batch
	}
	s := &verifC05Stream{vals: vals, eofWithLast: zz.Choice(name+"EofWithLastBatch", 2) == 1}
	s.cuts = []int{0, first}
	if first < n {
		s.cuts = append(s.cuts, n)
	}
	return NewCachedStream(s)
}

func VerifC05MergeLimit() {
	na := 1 + zz.Choice("rowsA", 3)
	nb := 1 + zz.Choice("rowsB", 3)
	if zz.Tier() == 0 {
		zz.Assume(na+nb <= 4)
	} else {
		zz.Assume(na+nb <= 5) // six rows did not finish within the thorough tier's time limit
	}
	a, b := make([]int64, na), make([]int64, nb)
	for i := range a {
		a[i] = zz.I64(zz.Name("a", i))
		zz.Assume(i == 0 || a[i-1] <= a[i])
	}
	for i := range b {
		b[i] = zz.I64(zz.Name("b", i))
		zz.Assume(i == 0 || b[i-1] <= b[i])
	}
	total := na + nb
	limit := zz.Choice("limit", total+2) // 0 = no limit
	dp := &DataProcessor{streams: []*CachedStream{verifC05MakeStream("a", a), verifC05MakeStream("b", b)}}
	dp.mergeSettings.less = verifC05Less
	if limit > 0 {
		dp.mergeSettings.limit = utils.Some(uint64(limit))
	}
	dp.processor = &headProcessor{options: &structs.HeadExpr{MaxRows: 100}}
	drain := func() []int64 {
		var got []int64
		for round := 0; ; round++ {
			zz.Assert(round <= 2*total+4, "mergelimit/terminates")
			if round > 2*total+4 {
				return got
			}
			out, err := dp.getStreamInput()
			zz.Assert(err == nil || err == io.EOF, "mergelimit/no-error")
			got = append(got, verifC05Read(out, "a")...)
			if err != nil {
				return got
			}
		}
	}
	got := drain()
	// a two-pass command rewinds its input and reads it again: the second pass sees the same rows
	secondPass := zz.Choice("secondPass", 2) == 1
	var got2 []int64
	if secondPass {
		dp.Rewind()
		got2 = drain()
	}
	// specification: the two ascending lists merged, cut at the limit
	want := make([]int64, 0, total)
	i, j := 0, 0
	for i < na || j < nb {
		if j >= nb || (i < na && a[i] <= b[j]) {
			want = append(want, a[i])
			i++
		} else {
			want = append(want, b[j])
			j++
		}
	}
	if limit > 0 && limit < total {
		want = want[:limit]
	}
	zz.Observe("ngot", len(got))
	zz.Assert(len(got) == len(want), "mergelimit/exactly-the-first-N-rows")
	for k := 0; k < len(got) && k < len(want); k++ {
		zz.Observe(zz.Name("got", k), got[k])
		zz.Assert(got[k] == want[k], "mergelimit/rows-in-merged-order")
	}
	if secondPass {
		zz.Observe("ngot2", len(got2))
		zz.Assert(len(got2) == len(want), "mergelimit/second-pass-after-rewind-sees-the-same-rows")
		for k := 0; k < len(got2) && k < len(want); k++ {
			zz.Assert(got2[k] == want[k], "mergelimit/second-pass-after-rewind-sees-the-same-rows")
		}
	}
}
