//go:build verif

package alertsHandler

// C20 (first sentence): after each evaluation an alert's state depends only on
// the last N evaluation outcomes; notifications follow the cool-down policy.
//
//verif:pkg pkg/alerts/alertsHandler
//verif:entry VerifC20StateMachine conf=0 replay=no
//verif:entry VerifC20Conditions conf=8
//verif:stub-always time.Now verifC20Now
//verif:stub-always github.com/siglens/siglens/pkg/alerts/alertsHandler.sendAlertEmail verifC20SendEmail
//verif:bound histories of 4 (quick) / 5 (thorough) evaluations with free outcomes; N = EvalWindow/EvalInterval in {0,1,2,3}; cool-down in 0..120 minutes, 1 s..1 day between evaluations
//verif:outside the second sentence of C20 (dashboards, folders, saved queries, aliases, lookup files, contact points as keyed stores: JSON files and sqlite/gorm); the concrete sqlite implementation of the database interface (cgo); cron scheduling
//verif:assume the database is an in-memory implementation of the package's `database` interface mirroring the sqlite contract: history is returned newest first limited to Limit rows; UpdateAlertStateAndNotificationDetails(id, st, sent) stores the state and, iff sent, sets LastSentTime=now and LastAlertState=st
//verif:assume time.Now is an arbitrary increasing clock controlled by the harness; e-mail delivery is stubbed to succeed and be recorded

import (
	"time"

	"github.com/siglens/siglens/pkg/alerts/alertutils"
	zz "github.com/siglens/siglens/pkg/zzverif"
	"gorm.io/gorm"
)

var verifC20Clock int64 // unix seconds
var verifC20Sends int

func verifC20Now() time.Time { return time.Unix(verifC20Clock, 0) }

func verifC20SendEmail(emailID, subject, message string, alertDataMessage string) error {
	verifC20Sends++
	return nil
}

type verifC20DB struct {
	alert   alertutils.AlertDetails
	notif   alertutils.Notification
	history []*alertutils.AlertHistoryDetails
}

func (d *verifC20DB) Connect() error   { return nil }
func (d *verifC20DB) CloseDb()         {}
func (d *verifC20DB) SetDB(db *gorm.DB) {}
func (d *verifC20DB) CreateAlert(a *alertutils.AlertDetails) (alertutils.AlertDetails, error) {
	return *a, nil
}
func (d *verifC20DB) GetAlert(id string) (*alertutils.AlertDetails, error) {
	cp := d.alert
	return &cp, nil
}
func (d *verifC20DB) CreateAlertHistory(h *alertutils.AlertHistoryDetails) (*alertutils.AlertHistoryDetails, error) {
	cp := *h
	cp.ID = uint(len(d.history) + 1)
	d.history = append(d.history, &cp)
	return &cp, nil
}
func (d *verifC20DB) GetAlertHistoryByAlertID(p *alertutils.AlertHistoryQueryParams) ([]*alertutils.AlertHistoryDetails, error) {
	limit := int(p.Limit)
	if limit == 0 {
		limit = 20
	}
	out := make([]*alertutils.AlertHistoryDetails, 0)
	for i := len(d.history) - 1; i >= 0 && len(out) < limit; i-- {
		out = append(out, d.history[i])
	}
	return out, nil
}
func (d *verifC20DB) GetAllAlerts(orgId int64) ([]*alertutils.AlertDetails, error) { return nil, nil }
func (d *verifC20DB) CreateMinionSearch(a *alertutils.MinionSearch) (alertutils.MinionSearch, error) {
	return *a, nil
}
func (d *verifC20DB) GetMinionSearch(id string) (*alertutils.MinionSearch, error) { return nil, nil }
func (d *verifC20DB) GetAllMinionSearches(orgId int64) ([]alertutils.MinionSearch, error) {
	return nil, nil
}
func (d *verifC20DB) UpdateMinionSearchStateByAlertID(id string, st alertutils.AlertState) error {
	return nil
}
func (d *verifC20DB) UpdateAlert(*alertutils.AlertDetails) error          { return nil }
func (d *verifC20DB) UpdateSilenceMinutes(*alertutils.AlertDetails) error { return nil }
func (d *verifC20DB) DeleteAlert(id string) error                         { return nil }
func (d *verifC20DB) CreateContact(*alertutils.Contact) error             { return nil }
func (d *verifC20DB) GetAllContactPoints(orgId int64) ([]alertutils.Contact, error) {
	return nil, nil
}
func (d *verifC20DB) UpdateContactPoint(c *alertutils.Contact) error { return nil }
func (d *verifC20DB) GetCoolDownDetails(id string) (uint64, time.Time, error) {
	return d.notif.CooldownPeriod, d.notif.LastSentTime, nil
}
func (d *verifC20DB) GetAlertNotification(id string) (*alertutils.Notification, error) {
	cp := d.notif
	return &cp, nil
}
func (d *verifC20DB) GetContactDetails(id string) (string, string, string, error) {
	return "contact", "message", "subject", nil
}
func (d *verifC20DB) GetEmailAndChannelID(cid string) ([]string, []alertutils.SlackTokenConfig, []alertutils.WebHookConfig, error) {
	return []string{"ops@example.com"}, nil, nil, nil
}
func (d *verifC20DB) UpdateAlertStateAndNotificationDetails(id string, st alertutils.AlertState, sent bool) error {
	d.alert.State = st
	d.alert.NumEvaluationsCount++
	if sent {
		d.notif.LastSentTime = verifC20Now()
		d.notif.LastAlertState = st
	}
	return nil
}
func (d *verifC20DB) DeleteContactPoint(id string) error { return nil }

func VerifC20StateMachine() {
	steps := 4
	if zz.Tier() > 0 {
		steps = 5
	}
	n := zz.Choice("intervalCount", 4) // N = 0..3
	db := &verifC20DB{}
	db.alert.AlertId = "a1"
	db.alert.AlertName = "alert"
	db.alert.EvalInterval = 5
	db.alert.EvalWindow = uint64(n) * 5
	if n == 0 {
		db.alert.EvalWindow = 3 // window shorter than interval
	}
	cooldown := zz.U64Range("cooldownMinutes", 0, 120)
	db.notif.CooldownPeriod = cooldown
	db.notif.LastAlertState = alertutils.Inactive
	databaseObj = db
	verifC20Clock = 1_700_000_000
	verifC20Sends = 0

	outcomes := make([]bool, steps)
	lastSentAt := int64(0)
	everSent := false
	lastNotified := alertutils.Inactive
	normalSendsThisEpisode := 0
	for i := 0; i < steps; i++ {
		verifC20Clock += int64(zz.U64Range(zz.Name("dt", i), 1, 86400))
		outcomes[i] = zz.Bool(zz.Name("matched", i))
		prevState := db.alert.State
		before := verifC20Sends
		err := handleAlertCondition(&db.alert, outcomes[i], "data")
		zz.Assert(err == nil, "state/no-error")
		sent := verifC20Sends - before

		// ---- state is a function of the last N outcomes
		allN := n >= 1 && i+1 >= n
		for j := 0; j < n && allN; j++ {
			if !outcomes[i-j] {
				allN = false
			}
		}
		var want alertutils.AlertState
		switch {
		case !outcomes[i]:
			want = alertutils.Normal
		case allN:
			want = alertutils.Firing
		default:
			want = alertutils.Pending
		}
		zz.Assert(db.alert.State == want, "state/function-of-last-N-outcomes")
		zz.Assert(len(db.history) == i+1 && db.history[i].AlertState == want, "state/one-history-row-per-evaluation")

		// ---- notification policy
		zz.Assert(sent == 0 || sent == 1, "notify/at-most-one-per-evaluation")
		coolOver := !everSent || verifC20Clock-lastSentAt >= int64(cooldown)*60
		switch want {
		case alertutils.Firing:
			if prevState != alertutils.Firing && coolOver {
				zz.Assert(sent == 1, "notify/sent-on-entering-firing")
			}
			if !coolOver {
				zz.Assert(sent == 0, "notify/not-repeated-within-cooldown")
			}
		case alertutils.Pending:
			zz.Assert(sent == 0, "notify/none-while-pending")
		case alertutils.Normal:
			if lastNotified != alertutils.Firing {
				zz.Assert(sent == 0, "notify/normal-only-after-a-firing-notification")
			}
			if lastNotified == alertutils.Firing && coolOver {
				zz.Assert(sent == 1, "notify/sent-once-on-return-to-normal")
			}
		}
		if sent == 1 {
			everSent = true
			lastSentAt = verifC20Clock
			lastNotified = want
			if want == alertutils.Normal {
				normalSendsThisEpisode++
				zz.Assert(normalSendsThisEpisode == 1, "notify/normal-at-most-once-per-episode")
			} else {
				normalSendsThisEpisode = 0
			}
		}
	}
}

// VerifC20Conditions: the condition compares the query value with the threshold as configured.
func VerifC20Conditions() {
	v, th := zz.F64("value"), zz.F64("threshold")
	zz.Assume(v == v && th == th) // no NaN in query results or thresholds
	c := alertutils.AlertQueryCondition(zz.Choice("cond", 5))
	got := evaluateConditions(v, &c, th)
	zz.Observe("got", got)
	var want bool
	switch c {
	case alertutils.IsAbove:
		want = v > th
	case alertutils.IsBelow:
		want = v < th
	case alertutils.IsEqualTo:
		want = v == th
	case alertutils.IsNotEqualTo:
		want = v != th
	case alertutils.HasNoValue:
		want = v == 0
	}
	zz.Assert(got == want, "condition/compares-as-configured")
}
