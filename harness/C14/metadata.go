//go:build verif

package metadata

// C14 (in-memory side): once retention has removed a segment, no list of the in-memory
// segment table still offers it to searches, and every surviving segment is still listed
// exactly once - whatever the segments' times (ties included) and insertion order.
//
//verif:pkg pkg/segment/metadata
//verif:entry VerifC14MetadataRemoval conf=0 replay=no
//verif:stub-always (*github.com/siglens/siglens/pkg/segment/metadata.SegmentMicroIndex).initMetadataSize verifC14NoSize
//verif:bound 2..3 (quick) / 2..4 (thorough) rotated segments spread over the indexes {a, b}, newest-event times free 8-bit values (so ties and every order occur), added in one batch or one by one; then any one of them, or any two, deleted with DeleteSegmentKey / DeleteSegmentKeys
//verif:outside files on disk, segmeta.json, the metrics tables, concurrent queries, memory accounting (initMetadataSize and the store summary counters do not affect the lists)

import (
	"github.com/siglens/siglens/pkg/segment/structs"
	zz "github.com/siglens/siglens/pkg/zzverif"
)

func verifC14NoSize(sm *SegmentMicroIndex) {}

func VerifC14MetadataRemoval() {
	maxN := 3
	if zz.Tier() > 0 {
		maxN = 4
	}
	n := 2 + zz.Choice("segments", maxN-1)
	globalMetadata = &allSegmentMetadata{
		allSegmentMicroIndex:        make([]*SegmentMicroIndex, 0),
		segmentMetadataReverseIndex: make(map[string]*SegmentMicroIndex),
		tableSortedMetadata:         make(map[string][]*SegmentMicroIndex),
		updateLock:                  globalMetadata.updateLock,
	}
	keys := make([]string, n)
	tables := make([]string, n)
	all := make([]*SegmentMicroIndex, n)
	for i := 0; i < n; i++ {
		keys[i] = zz.Name("/d/seg", i)
		tables[i] = []string{"a", "b"}[zz.Choice(zz.Name("table", i), 2)]
		latest := uint64(zz.U8(zz.Name("latest", i)))
		all[i] = InitSegmentMicroIndex(&structs.SegMeta{SegmentKey: keys[i], VirtualTableName: tables[i], LatestEpochMS: latest,
			EarliestEpochMS: 0}, false)
	}
	if zz.Choice("oneBatch", 2) == 1 {
		BulkAddSegmentMicroIndex(all)
	} else {
		for i := 0; i < n; i++ {
			BulkAddSegmentMicroIndex([]*SegmentMicroIndex{all[i]})
		}
	}
	gone := make([]bool, n)
	d1 := zz.Choice("delete", n)
	gone[d1] = true
	if zz.Choice("deleteTwo", 2) == 1 {
		d2 := zz.Choice("deleteSecond", n)
		gone[d2] = true
		DeleteSegmentKeys(map[string]bool{keys[d1]: true, keys[d2]: true})
	} else {
		DeleteSegmentKey(keys[d1])
	}
	for i := 0; i < n; i++ {
		inAll, inTable := 0, 0
		for _, smi := range globalMetadata.allSegmentMicroIndex {
			if smi.SegmentKey == keys[i] {
				inAll++
			}
		}
		for t, list := range globalMetadata.tableSortedMetadata {
			for _, smi := range list {
				if smi.SegmentKey == keys[i] {
					inTable++
					zz.Assert(t == tables[i], "removal/listed-under-its-own-index")
				}
			}
		}
		_, inRev := globalMetadata.segmentMetadataReverseIndex[keys[i]]
		if gone[i] {
			zz.Assert(inAll == 0 && inTable == 0 && !inRev, "removal/deleted-segment-is-in-no-list")
		} else {
			zz.Assert(inAll == 1 && inTable == 1 && inRev, "removal/survivor-still-listed-exactly-once")
		}
	}
}
