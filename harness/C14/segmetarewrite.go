//go:build verif

package writer

// C14 (metadata lists exactly the survivors, also after an interrupted pass): removing expired
// segments rewrites segmeta.json through a temporary file. If an earlier pass died after
// writing that temporary file and before renaming it, the leftover must not leak into the
// rewritten metadata: afterwards segmeta.json lists exactly the surviving segments.
//
//verif:pkg pkg/segment/writer
//verif:entry VerifC14SegmetaRewriteIgnoresALeftoverTempFile conf=0 replay=no
//verif:stub-always encoding/json.Marshal verifC14rwMarshal
//verif:stub-always encoding/json.Unmarshal verifC14rwUnmarshal
//verif:bound a segmeta file of 2..3 rotated segments; optionally a leftover segmeta.json.tmp holding what an interrupted earlier pass wrote (any non-empty subset of the entries, in order); removeSegmetas for any subset of the segment keys over the file model
//verif:outside the deletion of the segment directories themselves (VerifC13DeleteSegmentsOfOneTenantsIndex), the crash itself (the leftover file is its only trace), concurrent rewrites
//verif:assume json.Marshal/Unmarshal are contract stubs over one segmeta entry (segment key round trip)

import (
	"errors"
	"os"

	"github.com/siglens/siglens/pkg/segment/structs"
	zz "github.com/siglens/siglens/pkg/zzverif"
)

func verifC14rwKey(i int) string { return zz.Name("/d/h/final/ind/0-0-7/", i) + "/" + zz.Name("", i) }

func verifC14rwMarshal(v any) ([]byte, error) {
	m, ok := v.(structs.SegMeta)
	if !ok || len(m.SegmentKey) == 0 {
		return nil, errors.New("verif: unexpected json.Marshal argument")
	}
	return []byte{'{', m.SegmentKey[len(m.SegmentKey)-1], '}'}, nil
}

func verifC14rwUnmarshal(data []byte, v any) error {
	m, ok := v.(*structs.SegMeta)
	if !ok {
		return errors.New("verif: unexpected json.Unmarshal target")
	}
	if len(data) != 3 || data[0] != '{' || data[2] != '}' {
		return errors.New("unexpected end of JSON input")
	}
	i := int(data[1] - '0')
	m.SegmentKey = verifC14rwKey(i)
	m.SegbaseDir = zz.Name("/d/h/final/ind/0-0-7/", i) + "/"
	m.VirtualTableName = "ind"
	return nil
}

func VerifC14SegmetaRewriteIgnoresALeftoverTempFile() {
	localSegmetaFname = "/d/segmeta.json"
	n := 2 + zz.Choice("segments", 2)
	var content, leftover []byte
	for i := 0; i < n; i++ {
		content = append(content, '{', byte('0'+i), '}', '\n')
		if zz.Choice(zz.Name("leftoverHasEntry", i), 2) == 1 {
			leftover = append(leftover, '{', byte('0'+i), '}', '\n')
		}
	}
	zz.Assume(os.MkdirAll("/d", 0755) == nil)
	zz.Assume(os.WriteFile(localSegmetaFname, content, 0644) == nil)
	if len(leftover) > 0 {
		zz.Assume(os.WriteFile(localSegmetaFname+".tmp", leftover, 0644) == nil)
	}
	remove := map[string]struct{}{}
	var want []byte
	for i := 0; i < n; i++ {
		if zz.Choice(zz.Name("expired", i), 2) == 1 {
			remove[verifC14rwKey(i)] = struct{}{}
		} else {
			want = append(want, '{', byte('0'+i), '}', '\n')
		}
	}
	zz.Assume(len(remove) > 0)

	removeSegmetas(remove, "")

	got, err := os.ReadFile(localSegmetaFname)
	if len(want) == 0 {
		zz.Assert(err != nil || len(got) == 0, "segmetarewrite/metadata-lists-exactly-the-survivors")
		return
	}
	zz.Assert(err == nil && string(got) == string(want), "segmetarewrite/metadata-lists-exactly-the-survivors")
}
