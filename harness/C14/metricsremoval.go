//go:build verif

package meta

// C14 (metrics side): removing the expired metrics segments of a host removes exactly their
// directories and meta entries; every surviving segment keeps its directory, its meta entry
// and the tags tree it reads - also when it shares that tags tree with a removed segment,
// in whatever order the entries are listed.
//
//verif:pkg pkg/segment/writer/metrics/meta
//verif:entry VerifC14MetricsSegmentRemoval conf=0 replay=no
//verif:stub-always encoding/json.Marshal verifC14mMarshal
//verif:stub-always encoding/json.Unmarshal verifC14mUnmarshal
//verif:stub-always github.com/siglens/siglens/pkg/common/fileutils.RecursivelyDeleteEmptyParentDirectories verifC14mNoParentCleanup
//verif:bound a metrics meta file of 1..3 entries, each segment using one of two tags trees (free), any subset of the entries (and possibly a segment that is not listed) handed to RemoveMetricsSegments as expired
//verif:outside the selection of expired segments (VerifC14RetentionSelection), removal of emptied parent directories, interruption mid-way, concurrent ingestion
//verif:assume json.Marshal/Unmarshal are contract stubs over one meta entry (segment directory and tags-tree directory round trip); the file-system model applies operations in order

import (
	"errors"
	"os"

	"github.com/siglens/siglens/pkg/segment/structs"
	zz "github.com/siglens/siglens/pkg/zzverif"
)

func verifC14mSegDir(i int) string { return zz.Name("/d/ts/", i) + "/mseg" }
func verifC14mTTDir(t int) string  { return zz.Name("/d/tt/", t) }

func verifC14mMarshal(v any) ([]byte, error) {
	m, ok := v.(structs.MetricsMeta)
	if !ok || len(m.MSegmentDir) < 7 || len(m.TTreeDir) < 7 {
		return nil, errors.New("verif: unexpected json.Marshal argument")
	}
	return []byte{'{', m.MSegmentDir[6], m.TTreeDir[6], '}'}, nil
}

func verifC14mUnmarshal(data []byte, v any) error {
	m, ok := v.(*structs.MetricsMeta)
	if !ok {
		return errors.New("verif: unexpected json.Unmarshal target")
	}
	if len(data) != 4 || data[0] != '{' || data[3] != '}' {
		return errors.New("unexpected end of JSON input")
	}
	m.MSegmentDir = verifC14mSegDir(int(data[1] - '0'))
	m.TTreeDir = verifC14mTTDir(int(data[2] - '0'))
	return nil
}

func verifC14mNoParentCleanup(filePath string) {}

func verifC14mExists(p string) bool {
	_, err := os.Stat(p)
	return err == nil
}

func VerifC14MetricsSegmentRemoval() {
	n := 1 + zz.Choice("entries", 3)
	metaFile := "/d/metricmeta.json"
	tt := make([]int, n)
	expired := make([]bool, n)
	victims := map[string]*structs.MetricsMeta{}
	var content []byte
	for i := 0; i < n; i++ {
		tt[i] = zz.Choice(zz.Name("tagsTree", i), 2)
		expired[i] = zz.Choice(zz.Name("expired", i), 2) == 1
		zz.Assume(os.MkdirAll(zz.Name("/d/ts/", i), 0755) == nil)
		zz.Assume(os.WriteFile(verifC14mSegDir(i), []byte{1}, 0644) == nil)
		zz.Assume(os.MkdirAll(verifC14mTTDir(tt[i]), 0755) == nil)
		zz.Assume(os.WriteFile(verifC14mTTDir(tt[i])+"/tree", []byte{1}, 0644) == nil)
		content = append(content, '{', byte('0'+i), byte('0'+tt[i]), '}', '\n')
		if expired[i] {
			victims[verifC14mSegDir(i)] = &structs.MetricsMeta{MSegmentDir: verifC14mSegDir(i), TTreeDir: verifC14mTTDir(tt[i])}
		}
	}
	if zz.Choice("alsoAnUnlistedSegment", 2) == 1 {
		victims[verifC14mSegDir(7)] = &structs.MetricsMeta{MSegmentDir: verifC14mSegDir(7), TTreeDir: verifC14mTTDir(0)}
	}
	zz.Assume(os.WriteFile(metaFile, content, 0644) == nil)

	RemoveMetricsSegments(metaFile, victims)

	survivors := 0
	var want []byte
	var ttUsedBySurvivor, ttUsedByVictim [2]bool
	for i := 0; i < n; i++ {
		if expired[i] {
			ttUsedByVictim[tt[i]] = true
			zz.Assert(!verifC14mExists(verifC14mSegDir(i)), "metricsremoval/expired-segment-directory-is-gone")
		} else {
			survivors++
			ttUsedBySurvivor[tt[i]] = true
			want = append(want, '{', byte('0'+i), byte('0'+tt[i]), '}', '\n')
			zz.Assert(verifC14mExists(verifC14mSegDir(i)), "metricsremoval/surviving-segment-keeps-its-directory")
		}
	}
	for t := 0; t < 2; t++ {
		if ttUsedBySurvivor[t] {
			zz.Assert(verifC14mExists(verifC14mTTDir(t)+"/tree"), "metricsremoval/tags-tree-of-a-surviving-segment-is-kept")
		} else if ttUsedByVictim[t] {
			zz.Assert(!verifC14mExists(verifC14mTTDir(t)+"/tree"), "metricsremoval/tags-tree-used-only-by-expired-segments-is-gone")
		}
	}
	got, err := os.ReadFile(metaFile)
	if survivors == 0 {
		zz.Assert(err != nil, "metricsremoval/meta-file-removed-with-its-last-entry")
		return
	}
	zz.Assert(err == nil && string(got) == string(want), "metricsremoval/meta-file-lists-exactly-the-survivors")
}
