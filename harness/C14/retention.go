//go:build verif

package retention

// C14: a retention pass selects exactly the expired segments of the requesting
// organisation, and selecting again over the survivors selects nothing.
//
//verif:pkg pkg/retention
//verif:entry VerifC14RetentionSelection conf=0 replay=no
//verif:stub-always time.Now verifC14Now
//verif:stub-always github.com/siglens/siglens/pkg/segment/writer.ReadLocalSegmeta verifC14SegMetas
//verif:stub-always github.com/siglens/siglens/pkg/segment/writer/metrics/meta.ReadMetricsMeta verifC14MetricMetas
//verif:stub-always github.com/siglens/siglens/pkg/retention.DeleteSegmentData verifC14DeleteSegs
//verif:stub-always github.com/siglens/siglens/pkg/retention.DeleteMetricsSegmentData verifC14DeleteMetricSegs
//verif:stub-always github.com/siglens/siglens/pkg/retention.DeleteEmptyIndices verifC14NoEmptyIndices
//verif:bound DoRetentionBasedDeletion over 0..2 log segments and 0..2 metrics segments with free newest-event times (64-bit ms / 32-bit s), free organisation ids in {0,1}, retention 1 hour..10 years, the requesting organisation free
//verif:outside the volume- and inode-based passes (they delete by size, not by the retention horizon of C14), the physical delete order, metadata file rewrite, searchability afterwards, interruption mid-pass
//verif:assume metadata listing and the delete functions are stubs (listing returns the harness's metas, deletes capture the victim maps); time.Now is a fixed instant

import (
	"time"

	"github.com/siglens/siglens/pkg/segment/structs"
	zz "github.com/siglens/siglens/pkg/zzverif"
)

const verifC14NowMs = 1_700_000_000_000

var verifC14Segs []*structs.SegMeta
var verifC14Metrics map[string]*structs.MetricsMeta
var verifC14SegVictims map[string]*structs.SegMeta
var verifC14MetricVictims map[string]*structs.MetricsMeta

func verifC14Now() time.Time                                { return time.UnixMilli(verifC14NowMs) }
func verifC14SegMetas(readFullMeta bool) []*structs.SegMeta { return verifC14Segs }
func verifC14MetricMetas(f string) (map[string]*structs.MetricsMeta, error) {
	return verifC14Metrics, nil
}
func verifC14DeleteSegs(m map[string]*structs.SegMeta) { verifC14SegVictims = m }
func verifC14DeleteMetricSegs(f string, m map[string]*structs.MetricsMeta) {
	verifC14MetricVictims = m
}
func verifC14NoEmptyIndices(dir string, myid int64) {}

func VerifC14RetentionSelection() {
	nSeg, nMet := zz.Choice("nSeg", 3), zz.Choice("nMet", 3)
	verifC14Segs = nil
	verifC14Metrics = map[string]*structs.MetricsMeta{}
	for i := 0; i < nSeg; i++ {
		verifC14Segs = append(verifC14Segs, &structs.SegMeta{SegmentKey: zz.Name("seg", i),
			LatestEpochMS: zz.U64(zz.Name("segLatestMs", i)), OrgId: int64(zz.IntRange(zz.Name("segOrg", i), 0, 1))})
	}
	for i := 0; i < nMet; i++ {
		verifC14Metrics[zz.Name("mseg", i)] = &structs.MetricsMeta{MSegmentDir: zz.Name("mseg", i),
			LatestEpochSec: zz.U32(zz.Name("metLatestSec", i)), OrgId: int64(zz.IntRange(zz.Name("metOrg", i), 0, 1))}
	}
	hours := zz.IntRange("retentionHours", 1, 24*3650)
	org := int64(zz.IntRange("org", 0, 1))
	horizon := uint64(verifC14NowMs) - uint64(hours)*3600_000

	DoRetentionBasedDeletion("/data/ingestnodes/n", hours, org)

	check := func(label string) {
		for _, s := range verifC14Segs {
			_, victim := verifC14SegVictims[s.SegmentKey]
			if s.OrgId == org && s.LatestEpochMS < horizon {
				zz.Assert(victim, label+"/expired-log-segment-is-deleted")
			}
			if victim {
				zz.Assert(s.OrgId == org, label+"/only-the-requesting-organisation")
				zz.Assert(s.LatestEpochMS <= horizon, label+"/no-segment-with-a-newer-event-is-deleted")
			}
		}
		for k, m := range verifC14Metrics {
			_, victim := verifC14MetricVictims[k]
			latest := uint64(m.LatestEpochSec) * 1000
			if m.OrgId == org && latest < horizon {
				zz.Assert(victim, label+"/expired-metrics-segment-is-deleted")
			}
			if victim {
				zz.Assert(m.OrgId == org, label+"/only-the-requesting-organisation")
				zz.Assert(latest <= horizon, label+"/no-metrics-segment-with-a-newer-event-is-deleted")
			}
		}
		zz.Assert(len(verifC14SegVictims) <= len(verifC14Segs) && len(verifC14MetricVictims) <= len(verifC14Metrics), label+"/no-invented-victims")
	}
	check("retention")

	// second pass over the survivors (interrupted-and-repeated pass): nothing more to delete
	var survivors []*structs.SegMeta
	for _, s := range verifC14Segs {
		if _, victim := verifC14SegVictims[s.SegmentKey]; !victim {
			survivors = append(survivors, s)
		}
	}
	for k := range verifC14MetricVictims {
		delete(verifC14Metrics, k)
	}
	verifC14Segs = survivors
	verifC14SegVictims, verifC14MetricVictims = nil, nil
	DoRetentionBasedDeletion("/data/ingestnodes/n", hours, org)
	zz.Assert(len(verifC14SegVictims) == 0 && len(verifC14MetricVictims) == 0, "retention/repeating-the-pass-deletes-nothing-more")
}
