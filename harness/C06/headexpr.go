//go:build verif

package processor

// C06 (head with a condition): `head limit=N (kind="ok") [keeplast=t]` passes the rows up to
// the first one that fails the condition (that one too with keeplast), never more than N in
// total, however the stream is cut into batches.
//
//verif:pkg pkg/segment/query/processor
//verif:entry VerifC06HeadWithConditionWhateverTheBatching conf=6
//verif:bound 0..4 rows with a free kind out of {ok, no} and a free int64 payload each, cut into up to three batches of any sizes; limit 1..5; keeplast on/off; the condition is the string equality kind="ok" evaluated by the real expression evaluator
//verif:outside other condition shapes (the evaluator itself), null=true with missing fields
//verif:assume none

import (
	"io"

	"github.com/siglens/siglens/pkg/segment/query/iqr"
	"github.com/siglens/siglens/pkg/segment/structs"
	sutils "github.com/siglens/siglens/pkg/segment/utils"
	zz "github.com/siglens/siglens/pkg/zzverif"
)

func VerifC06HeadWithConditionWhateverTheBatching() {
	T := zz.Choice("T", 5)
	ok := make([]bool, T)
	a := make([]int64, T)
	for i := 0; i < T; i++ {
		ok[i] = zz.Choice(zz.Name("kindIsOk", i), 2) == 1
		a[i] = zz.I64(zz.Name("a", i))
	}
	limit := 1 + zz.Choice("limit", 5)
	keeplast := zz.Choice("keeplast", 2) == 1
	cond := &structs.BoolExpr{
		LeftValue: &structs.ValueExpr{ValueExprMode: structs.VEMNumericExpr,
			NumericExpr: &structs.NumericExpr{NumericExprMode: structs.NEMNumberField, Value: "kind", IsTerminal: true, ValueIsField: true}},
		RightValue: &structs.ValueExpr{ValueExprMode: structs.VEMStringExpr,
			StringExpr: &structs.StringExpr{StringExprMode: structs.SEMRawString, RawString: "ok"}},
		ValueOp: "=", IsTerminal: true,
	}
	p := &headProcessor{options: &structs.HeadExpr{BoolExpr: cond, MaxRows: uint64(limit), Keeplast: keeplast}}
	var got []int64
	from := 0
	done := false
	for _, n := range verifC06Batches(T) {
		if done {
			break // the pipeline stops fetching once a processor reports EOF
		}
		if n == 0 {
			continue
		}
		kinds := make([]sutils.CValueEnclosure, n)
		vals := make([]sutils.CValueEnclosure, n)
		for i := 0; i < n; i++ {
			k := "no"
			if ok[from+i] {
				k = "ok"
			}
			kinds[i] = sutils.CValueEnclosure{Dtype: sutils.SS_DT_STRING, CVal: k}
			vals[i] = sutils.CValueEnclosure{Dtype: sutils.SS_DT_SIGNED_NUM, CVal: a[from+i]}
		}
		b := iqr.NewIQR(0)
		zz.Assume(b.AppendKnownValues(map[string][]sutils.CValueEnclosure{"kind": kinds, "a": vals}) == nil)
		out, err := p.Process(b)
		from += n
		zz.Assert(err == nil || err == io.EOF, "headexpr/no-error")
		got = append(got, verifC06Read(out, "a")...)
		done = err == io.EOF
	}
	k := 0
	for k < T && ok[k] {
		k++
	}
	if k < T && keeplast {
		k++
	}
	if k > limit {
		k = limit
	}
	zz.Observe("ngot", len(got))
	zz.Assert(verifC06Same(got, a[:k]), "headexpr/rows-up-to-the-first-failing-one-and-at-most-the-limit")
}
