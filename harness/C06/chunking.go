//go:build verif

package processor

// C06: head / tail / dedup produce the output defined on the whole ordered
// input stream, however the stream is chunked into batches.
//
//verif:pkg pkg/segment/query/processor
//verif:entry VerifC06Head conf=6
//verif:entry VerifC06Tail conf=6
//verif:entry VerifC06Dedup conf=6
//verif:stub (*github.com/siglens/siglens/pkg/segment/utils.CValueEnclosure).Hash verifC06Hash
//verif:bound total input T = 0..4 rows (head/tail) or 1..3 (quick) / 1..4 (thorough) rows (dedup; values in {0,1,2}) with free int64 values (head/tail) in one or two columns; the partition of the rows into up to three batches is free; head limit 0..T+1, tail rows 0..T+1, dedup limit 1..2, consecutive on/off
//verif:outside where/eval/rex/regex/fillnull/rename/bin/streamstats/stats/top/rare/makemv (expression evaluation and regexes), DataProcessor.Fetch wiring, two-pass commands, parallel chain merge
//verif:assume dedup values are drawn from {0,1,2}; CValueEnclosure.Hash is the real function evaluated on each concrete candidate value (real xxhash), so no hash value is chosen by the solver

import (
	"io"

	"github.com/siglens/siglens/pkg/segment/query/iqr"
	"github.com/siglens/siglens/pkg/segment/structs"
	sutils "github.com/siglens/siglens/pkg/segment/utils"
	zz "github.com/siglens/siglens/pkg/zzverif"
)

// verifC06Hash: the dedup harness draws values from {0,1,2,3}; the stub
// case-splits on the value and runs the *real* Hash on the concrete value, so no
// hash value is left to the solver's choice (no invented collisions).
func verifC06Hash(e *sutils.CValueEnclosure) uint64 {
	if e.Dtype == sutils.SS_DT_SIGNED_NUM {
		v := e.CVal.(int64)
		for k := int64(0); k < 4; k++ {
			if v == k {
				c := sutils.CValueEnclosure{Dtype: e.Dtype, CVal: k}
				return c.Hash()
			}
		}
	}
	return e.Hash()
}

// verifC06Batches cuts rows 0..T-1 into up to three consecutive batches.
func verifC06Batches(T int) []int {
	n1 := zz.Choice("n1", T+1)
	n2 := zz.Choice("n2", T-n1+1)
	return []int{n1, n2, T - n1 - n2}
}

func verifC06IQR(cols map[string][]int64, from, n int) *iqr.IQR {
	iq := iqr.NewIQR(0)
	kv := map[string][]sutils.CValueEnclosure{}
	for name, vals := range cols {
		col := make([]sutils.CValueEnclosure, n)
		for i := 0; i < n; i++ {
			col[i] = sutils.CValueEnclosure{Dtype: sutils.SS_DT_SIGNED_NUM, CVal: vals[from+i]}
		}
		kv[name] = col
	}
	if n > 0 {
		if err := iq.AppendKnownValues(kv); err != nil {
			zz.Assert(false, "iqr/append-known-values")
		}
	}
	return iq
}

func verifC06Read(out *iqr.IQR, col string) []int64 {
	if out == nil || out.NumberOfRecords() == 0 {
		return nil
	}
	vals, err := out.ReadColumn(col)
	if err != nil {
		zz.Assert(false, "iqr/read-column")
		return nil
	}
	res := make([]int64, len(vals))
	for i, v := range vals {
		res[i] = v.CVal.(int64)
	}
	return res
}

func verifC06Same(got, want []int64) bool {
	if len(got) != len(want) {
		return false
	}
	for i := range got {
		if got[i] != want[i] {
			return false
		}
	}
	return true
}

func VerifC06Head() {
	T := zz.Choice("T", 5)
	a := make([]int64, T)
	for i := range a {
		a[i] = zz.I64(zz.Name("a", i))
	}
	limit := zz.Choice("limit", T+2)
	p := &headProcessor{options: &structs.HeadExpr{MaxRows: uint64(limit)}}
	var got []int64
	from := 0
	done := false
	for _, n := range verifC06Batches(T) {
		if done {
			break // the pipeline stops fetching once a processor reports EOF
		}
		if n == 0 {
			continue
		}
		out, err := p.Process(verifC06IQR(map[string][]int64{"a": a}, from, n))
		from += n
		zz.Assert(err == nil || err == io.EOF, "head/no-error")
		got = append(got, verifC06Read(out, "a")...)
		done = err == io.EOF
	}
	want := a
	if limit < T {
		want = a[:limit]
	}
	zz.Observe("ngot", len(got))
	zz.Assert(verifC06Same(got, want), "head/first-n-rows-whatever-the-batching")
	zz.Assert(done == (T >= limit) || T == 0, "head/eof-exactly-when-limit-reached")
}

func VerifC06Tail() {
	T := zz.Choice("T", 5)
	a := make([]int64, T)
	for i := range a {
		a[i] = zz.I64(zz.Name("a", i))
	}
	k := zz.Choice("tailRows", T+2)
	p := &tailProcessor{options: &structs.TailExpr{TailRows: uint64(k)}}
	from := 0
	for _, n := range verifC06Batches(T) {
		if n == 0 {
			continue
		}
		out, err := p.Process(verifC06IQR(map[string][]int64{"a": a}, from, n))
		from += n
		zz.Assert(err == nil && out == nil, "tail/buffers-until-end-of-input")
	}
	out, err := p.Process(nil)
	zz.Assert(err == io.EOF, "tail/eof-after-input-ends")
	got := verifC06Read(out, "a")
	var want []int64
	for i := T - 1; i >= 0 && len(want) < k; i-- {
		want = append(want, a[i])
	}
	zz.Observe("ngot", len(got))
	zz.Assert(verifC06Same(got, want), "tail/last-n-rows-newest-first-whatever-the-batching")
}

func VerifC06Dedup() {
	maxT := 3
	if zz.Tier() > 0 {
		maxT = 4
	}
	T := 1 + zz.Choice("T", maxT)
	a, b := make([]int64, T), make([]int64, T)
	for i := 0; i < T; i++ {
		a[i], b[i] = int64(zz.IntRange(zz.Name("a", i), 0, verifC06Dom())), int64(zz.IntRange(zz.Name("b", i), 0, verifC06Dom()))
	}
	limit := 1 + zz.Choice("limit", 2)
	consecutive := zz.Choice("consecutive", 2) == 1
	twoFields := zz.Choice("twoFields", 2) == 1
	fields := []string{"a"}
	if twoFields {
		fields = []string{"a", "b"}
	}
	p := &dedupProcessor{options: &structs.DedupExpr{Limit: uint64(limit), FieldList: fields,
		DedupOptions: &structs.DedupOptions{Consecutive: consecutive}}}
	var gotA, gotB []int64
	from := 0
	for _, n := range verifC06Batches(T) {
		if n == 0 {
			continue
		}
		out, err := p.Process(verifC06IQR(map[string][]int64{"a": a, "b": b}, from, n))
		from += n
		zz.Assert(err == nil, "dedup/no-error")
		gotA = append(gotA, verifC06Read(out, "a")...)
		gotB = append(gotB, verifC06Read(out, "b")...)
	}
	// specification on the whole stream
	same := func(i, j int) bool { return a[i] == a[j] && (!twoFields || b[i] == b[j]) }
	var wantA, wantB []int64
	for i := 0; i < T; i++ {
		seen := 0
		for j := i - 1; j >= 0; j-- {
			if same(i, j) {
				seen++
			} else if consecutive {
				break
			}
		}
		if seen < limit {
			wantA, wantB = append(wantA, a[i]), append(wantB, b[i])
		}
	}
	zz.Observe("ngot", len(gotA))
	ok := verifC06Same(gotA, wantA) && verifC06Same(gotB, wantB)
	if twoFields {
		zz.Assert(ok, "dedup/two-fields/keeps-first-limit-rows-per-distinct-tuple")
	} else {
		zz.Assert(ok, "dedup/keeps-first-limit-rows-per-distinct-value")
	}
}

// value domain of the dedup harness: {0,1,2} (the thorough tier adds a 4th row)
func verifC06Dom() int {
	return 2
}
