//go:build verif

package processor

// C06 (bin): the first pass of `bin` without a span accumulates the minimum and maximum of
// the whole stream - the quantities its span is derived from - however the stream is cut
// into batches.
//
//verif:pkg pkg/segment/query/processor
//verif:entry VerifC06BinFirstPassMinMax conf=6
//verif:stub-always github.com/siglens/siglens/pkg/utils.GetOrCreateBatchErrorWithQid verifC06NoBatchErr
//verif:bound 1..4 rows with free float64 values (any finite value) in one column, cut into up to three batches of any sizes (empty batches are skipped); binProcessor.Process on every batch with no span option, then the accumulated minimum / maximum are compared with those of the whole input
//verif:outside the span derived from them (findSpan uses log10/pow: transcendental functions are outside the encoding), the second pass, bin on the timestamp column, explicit span / start / end options
//verif:assume the batch-error collector is not needed on this path (stubbed to nil)

import (
	"math"

	"github.com/siglens/siglens/pkg/segment/query/iqr"
	"github.com/siglens/siglens/pkg/segment/structs"
	sutils "github.com/siglens/siglens/pkg/segment/utils"
	"github.com/siglens/siglens/pkg/utils"
	zz "github.com/siglens/siglens/pkg/zzverif"
)

func verifC06NoBatchErr(qid uint64) *utils.BatchError { return nil }

func VerifC06BinFirstPassMinMax() {
	T := 1 + zz.Choice("T", 4)
	a := make([]float64, T)
	for i := range a {
		a[i] = zz.F64(zz.Name("a", i))
		zz.Assume(a[i] == a[i] && a[i] >= -math.MaxFloat64 && a[i] <= math.MaxFloat64) // finite: what an ingested number can be
	}
	p := &binProcessor{options: &structs.BinCmdOptions{Field: "a", MaxBins: 100}}
	from := 0
	for _, n := range verifC06Batches(T) {
		if n == 0 {
			continue
		}
		col := make([]sutils.CValueEnclosure, n)
		for i := 0; i < n; i++ {
			col[i] = sutils.CValueEnclosure{Dtype: sutils.SS_DT_FLOAT, CVal: a[from+i]}
		}
		batch := iqr.NewIQR(0)
		zz.Assume(batch.AppendKnownValues(map[string][]sutils.CValueEnclosure{"a": col}) == nil)
		out, err := p.Process(batch)
		from += n
		zz.Assert(err == nil && out != nil, "bin/first-pass-passes-the-batch-through")
	}
	lo, hi := a[0], a[0]
	for _, v := range a {
		if v < lo {
			lo = v
		}
		if v > hi {
			hi = v
		}
	}
	zz.Observe("min", p.minVal)
	zz.Observe("max", p.maxVal)
	zz.Assert(p.minVal == lo, "bin/minimum-of-the-whole-stream-whatever-the-batching")
	zz.Assert(p.maxVal == hi, "bin/maximum-of-the-whole-stream-whatever-the-batching")
}
