//go:build verif

package processor

// C06 (fillnull): every null cell of the chosen fields - of every field of the stream when no
// field list is given (two passes) - becomes the fill value, every other cell keeps its value,
// however the stream is cut into batches and whether or not a batch carries the column at all.
//
//verif:pkg pkg/segment/query/processor
//verif:entry VerifC06FillnullWhateverTheBatching conf=6
//verif:bound 1..3 rows over the columns a and b, every cell null or a free int64; up to three batches of any sizes; a batch whose cells of a column are all null may lack that column altogether; fillnull with the field list [a, b] (one pass) or without a field list (first pass over all batches, Rewind, second pass over the same batches)
//verif:outside the DataProcessor driver that replays the stream for the second pass (VerifC06RewindSeesTheSameStream), value=<other types>

import (
	"github.com/siglens/siglens/pkg/segment/query/iqr"
	"github.com/siglens/siglens/pkg/segment/structs"
	sutils "github.com/siglens/siglens/pkg/segment/utils"
	zz "github.com/siglens/siglens/pkg/zzverif"
)

func VerifC06FillnullWhateverTheBatching() {
	T := 1 + zz.Choice("T", 3)
	cols := []string{"a", "b"}
	isNull := map[string][]bool{}
	vals := map[string][]int64{}
	for _, c := range cols {
		isNull[c], vals[c] = make([]bool, T), make([]int64, T)
		for i := 0; i < T; i++ {
			isNull[c][i] = zz.Choice(zz.Name(c+".null", i), 2) == 1
			vals[c][i] = zz.I64(zz.Name(c, i))
		}
	}
	sizes := verifC06Batches(T)
	// both passes read the same stream: whether a batch lacks the column is decided once
	lacksB := make([]bool, len(sizes))
	for bi := range sizes {
		lacksB[bi] = zz.Choice(zz.Name("batchLacksColumnB", bi), 2) == 1
	}
	build := func() []*iqr.IQR {
		var out []*iqr.IQR
		from := 0
		for bi, n := range sizes {
			if n == 0 {
				continue
			}
			kv := map[string][]sutils.CValueEnclosure{}
			for _, c := range cols {
				allNull := true
				col := make([]sutils.CValueEnclosure, n)
				for i := 0; i < n; i++ {
					if isNull[c][from+i] {
						col[i] = sutils.CValueEnclosure{Dtype: sutils.SS_DT_BACKFILL, CVal: nil}
					} else {
						allNull = false
						col[i] = sutils.CValueEnclosure{Dtype: sutils.SS_DT_SIGNED_NUM, CVal: vals[c][from+i]}
					}
				}
				if allNull && c == "b" && lacksB[bi] {
					continue
				}
				kv[c] = col
			}
			b := iqr.NewIQR(0)
			zz.Assume(b.AppendKnownValues(kv) == nil)
			out = append(out, b)
			from += n
		}
		return out
	}
	withList := zz.Choice("fieldList", 2) == 1
	opts := &structs.FillNullExpr{Value: "0"}
	if withList {
		opts.FieldList = []string{"a", "b"}
	}
	p := &fillnullProcessor{options: opts}
	if !withList {
		for _, b := range build() {
			_, err := p.Process(b)
			zz.Assert(err == nil, "fillnull/first-pass-no-error")
		}
		p.Rewind()
	}
	fill := sutils.CValueEnclosure{}
	zz.Assume(fill.ConvertValue("0") == nil)
	row := 0
	everHadB := false
	for i := 0; i < T; i++ {
		if !isNull["b"][i] {
			everHadB = true
		}
	}
	for _, b := range build() {
		out, err := p.Process(b)
		zz.Assert(err == nil && out != nil, "fillnull/no-error")
		if err != nil || out == nil {
			return
		}
		n := out.NumberOfRecords()
		for _, c := range cols {
			got, err := out.ReadColumn(c)
			zz.Assert(err == nil, "fillnull/read-column")
			if got == nil {
				// without a field list a column no batch ever carried does not exist for the command
				zz.Assert(!withList && c == "b" && !everHadB, "fillnull/column-is-filled-in-every-batch")
				continue
			}
			zz.Assert(len(got) == n, "fillnull/one-cell-per-row")
			for i := 0; i < n && i < len(got); i++ {
				if isNull[c][row+i] {
					zz.Assert(got[i].Dtype == fill.Dtype && got[i].CVal == fill.CVal, "fillnull/null-cell-gets-the-fill-value")
				} else {
					v, ok := got[i].CVal.(int64)
					zz.Assert(ok && v == vals[c][row+i], "fillnull/other-cells-keep-their-value")
				}
			}
		}
		row += n
	}
	zz.Assert(row == T, "fillnull/every-row-passes")
}
