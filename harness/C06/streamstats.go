//go:build verif

package processor

// C06 (streamstats): the running aggregate written next to every row is the same whether the
// rows reach the command in one batch or cut into several.
//
//verif:pkg pkg/segment/query/processor
//verif:entry VerifC06StreamstatsWhateverTheBatching conf=6
//verif:bound 2..4 rows with the values 1, 2, 3, 4 in column v and a free group g out of {x, y} per row; measure count(v), sum(v) or max(v); window 0 (all earlier rows) or 2; current true or false; plain, `by g`, or `by g reset_on_change=true`; the stream in one batch against the same stream cut into up to three batches of any sizes
//verif:outside the meaning of the options themselves (the single-batch run of the same code is the reference), time windows, reset_before / reset_after, eval expressions as measures, global=false
//verif:assume none

import (
	"github.com/siglens/siglens/pkg/segment/query/iqr"
	"github.com/siglens/siglens/pkg/segment/structs"
	sutils "github.com/siglens/siglens/pkg/segment/utils"
	zz "github.com/siglens/siglens/pkg/zzverif"
)

func verifC06ssRun(T int, groups []string, sizes []int, fn sutils.AggregateFunctions, window uint64, current bool, mode int) ([]sutils.CValueEnclosure, bool) {
	ma := &structs.MeasureAggregator{MeasureCol: "v", MeasureFunc: fn}
	opts := &structs.StreamStatsOptions{Window: window, Current: current, Global: true, MeasureOperations: []*structs.MeasureAggregator{ma}}
	if mode >= 1 {
		opts.GroupByRequest = &structs.GroupByRequest{GroupByColumns: []string{"g"}, MeasureOperations: []*structs.MeasureAggregator{ma}}
	}
	if mode == 2 {
		opts.ResetOnChange = true
	}
	p := &streamstatsProcessor{options: opts}
	var out []sutils.CValueEnclosure
	from := 0
	for _, n := range sizes {
		if n == 0 {
			continue
		}
		v := make([]sutils.CValueEnclosure, n)
		g := make([]sutils.CValueEnclosure, n)
		for i := 0; i < n; i++ {
			v[i] = sutils.CValueEnclosure{Dtype: sutils.SS_DT_FLOAT, CVal: float64(from + i + 1)}
			g[i] = sutils.CValueEnclosure{Dtype: sutils.SS_DT_STRING, CVal: groups[from+i]}
		}
		b := iqr.NewIQR(0)
		if b.AppendKnownValues(map[string][]sutils.CValueEnclosure{"v": v, "g": g}) != nil {
			return nil, false
		}
		res, err := p.Process(b)
		if err != nil || res == nil {
			return nil, false
		}
		col, err := res.ReadColumn(ma.String())
		if err != nil || len(col) != n {
			return nil, false
		}
		out = append(out, col...)
		from += n
	}
	return out, true
}

func VerifC06StreamstatsWhateverTheBatching() {
	T := 2 + zz.Choice("T", 3)
	groups := make([]string, T)
	for i := range groups {
		groups[i] = []string{"x", "y"}[zz.Choice(zz.Name("group", i), 2)]
	}
	fn := []sutils.AggregateFunctions{sutils.Count, sutils.Sum, sutils.Max}[zz.Choice("measure", 3)]
	window := uint64(2 * zz.Choice("window2", 2))
	current := zz.Choice("current", 2) == 1
	mode := zz.Choice("byClause", 3)
	whole, ok1 := verifC06ssRun(T, groups, []int{T}, fn, window, current, mode)
	cut, ok2 := verifC06ssRun(T, groups, verifC06Batches(T), fn, window, current, mode)
	zz.Assert(ok1 && ok2, "streamstats/no-error")
	if !ok1 || !ok2 {
		return
	}
	zz.Assert(len(whole) == T && len(cut) == T, "streamstats/one-result-per-row")
	for i := 0; i < T && i < len(whole) && i < len(cut); i++ {
		zz.Observe(zz.Name("whole", i), whole[i].CVal)
		zz.Assert(whole[i].Dtype == cut[i].Dtype && whole[i].CVal == cut[i].CVal, "streamstats/same-running-value-whatever-the-batching")
	}
}
