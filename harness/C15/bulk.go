//go:build verif

package writer

// C15: the bulk response acknowledges exactly what was handed to the store.
//
//verif:pkg pkg/es/writer
//verif:entry VerifC15BulkAck conf=0 replay=no
//verif:stub-always github.com/siglens/siglens/pkg/es/writer.ExtractIndexAndValidateAction verifC15Action
//verif:stub-always github.com/siglens/siglens/pkg/segment/writer.GetNewPLE verifC15GetNewPLE
//verif:stub-always github.com/siglens/siglens/pkg/es/writer.ProcessIndexRequestPle verifC15Store
//verif:stub-always github.com/siglens/siglens/pkg/usageStats.UpdateStats verifC15NoStats
//verif:bound bulk bodies of 1..3 (quick) / 1..4 (thorough) action lines, each followed by a document line (the last action's document line may be missing); per item: action in {index, create, update, delete}, index name in {"i","j"}, document normal-sized or larger than the 63000-byte limit, JSON accepted or rejected by the parser, store call per index succeeding or failing
//verif:outside JSON validity itself (jsonparser), the .kibana internal path, Splunk/Loki handlers, what the store does with the batch (C01)
//verif:assume ExtractIndexAndValidateAction, writer.GetNewPLE and ProcessIndexRequestPle are contract stubs: the action/index of each line, whether the document parses, and whether the store accepts each per-index batch are free; every successful GetNewPLE returns a distinct event

import (
	"errors"

	"github.com/siglens/siglens/pkg/segment/writer"
	zz "github.com/siglens/siglens/pkg/zzverif"
)

var verifC15Actions []int
var verifC15Indexes []string
var verifC15ActionCalls int
var verifC15ParseOK []bool
var verifC15PLECalls int
var verifC15PLEs []*writer.ParsedLogEvent // by document order of successful parses
var verifC15PLEItem []int                 // item index of each PLE
var verifC15Stored map[*writer.ParsedLogEvent]int
var verifC15StoreFail map[string]bool
var verifC15StoreCalls map[string]int

func verifC15Action(rawJson []byte) (int, string, string) {
	i := verifC15ActionCalls
	verifC15ActionCalls++
	if i >= len(verifC15Actions) {
		return DELETE, "eventType", ""
	}
	return verifC15Actions[i], verifC15Indexes[i], ""
}

func verifC15GetNewPLE(rawJson []byte, tsNow uint64, indexName string, tsKey *string, buf []byte) (*writer.ParsedLogEvent, error) {
	// the item this document belongs to: documents are requested in item order
	item := verifC15ActionCalls - 1
	if !verifC15ParseOK[item] {
		return nil, errors.New("verif: document rejected by the parser")
	}
	ple := writer.NewPLE()
	ple.SetIndexName(indexName)
	ple.SetRawJson(rawJson)
	verifC15PLEs = append(verifC15PLEs, ple)
	verifC15PLEItem = append(verifC15PLEItem, item)
	return ple, nil
}

func verifC15Store(tsNow uint64, indexNameIn string, flush bool, localIndexMap map[string]string, myid int64, rid uint64,
	idxToStreamIdCache map[string]string, cnameCacheByteHashToStr map[uint64]string, jsParsingStackbuf []byte,
	pleArray []*writer.ParsedLogEvent) error {
	verifC15StoreCalls[indexNameIn]++
	for _, p := range pleArray {
		zz.Assert(p.GetIndexName() == indexNameIn, "bulk/event-goes-to-the-batch-of-its-own-index")
	}
	if verifC15StoreFail[indexNameIn] {
		return errors.New("verif: store rejected the batch")
	}
	for _, p := range pleArray {
		verifC15Stored[p]++
	}
	return nil
}

func verifC15NoStats(logsBytesCount uint64, logLinesCount uint64, orgid int64) {}

func VerifC15BulkAck() {
	maxK := 3
	if zz.Tier() > 0 {
		maxK = 4
	}
	k := 1 + zz.Choice("items", maxK)
	verifC15Actions, verifC15Indexes, verifC15ParseOK = make([]int, k), make([]string, k), make([]bool, k)
	verifC15ActionCalls, verifC15PLECalls = 0, 0
	verifC15PLEs, verifC15PLEItem = nil, nil
	verifC15Stored = map[*writer.ParsedLogEvent]int{}
	verifC15StoreCalls = map[string]int{}
	verifC15StoreFail = map[string]bool{"i": zz.Bool("storeFail.i"), "j": zz.Bool("storeFail.j")}
	big := make([]byte, 63001)
	for n := range big {
		big[n] = 'x'
	}
	oversize := make([]bool, k)
	missingDoc := false
	var body []byte
	for i := 0; i < k; i++ {
		verifC15Actions[i] = []int{INDEX, UPDATE, DELETE}[zz.Choice(zz.Name("action", i), 3)]
		if verifC15Actions[i] == INDEX && zz.Bool(zz.Name("create", i)) {
			verifC15Actions[i] = CREATE
		}
		verifC15Indexes[i] = []string{"i", "j"}[zz.Choice(zz.Name("index", i), 2)]
		verifC15ParseOK[i] = zz.Bool(zz.Name("parses", i))
		oversize[i] = zz.Choice(zz.Name("oversize", i), 2) == 1
		body = append(body, []byte(`{"a":{}}`)...)
		body = append(body, '\n')
		// the body may end right after the last action line (no document line)
		truncated := i == k-1 && verifC15Actions[i] != DELETE && zz.Choice("lastDocMissing", 2) == 1
		if truncated {
			missingDoc = true
		}
		if verifC15Actions[i] != DELETE && !truncated {
			if oversize[i] {
				body = append(body, big...)
			} else {
				body = append(body, []byte(`{"f":1}`)...)
			}
			body = append(body, '\n')
		}
	}
	_, resp, _ := HandleBulkBody(body, nil, 0, 0, false)
	items, _ := resp["items"].([]interface{})
	zz.Assert(len(items) == k, "bulk/one-item-per-action")
	if len(items) != k {
		return
	}
	anyFailed := false
	for i := 0; i < k; i++ {
		m, _ := items[i].(map[string]interface{})
		created := false
		status := 0
		if m != nil {
			if st, ok := m["status"].(int); ok {
				status = st
			} else {
				created = true // the shared 201 response object
			}
		}
		isWrite := verifC15Actions[i] == INDEX || verifC15Actions[i] == CREATE
		noDoc := missingDoc && i == k-1
		handed := isWrite && !oversize[i] && verifC15ParseOK[i] && !noDoc
		if noDoc {
			zz.Assert(!created, "bulk/action-without-a-document-is-not-reported-created")
			anyFailed = true
			continue
		}
		// how often was this item's event stored?
		stored := 0
		for n, p := range verifC15PLEs {
			if verifC15PLEItem[n] == i {
				stored += verifC15Stored[p]
			}
		}
		storeOK := handed && !verifC15StoreFail[verifC15Indexes[i]]
		zz.Assert(stored <= 1, "bulk/stored-at-most-once")
		zz.Assert(!storeOK || stored == 1, "bulk/accepted-document-is-stored")
		if handed && verifC15StoreFail[verifC15Indexes[i]] {
			zz.Assert(!created, "bulk/store-failure/item-not-reported-created")
		} else {
			zz.Assert(created == storeOK, "bulk/created-iff-stored")
		}
		if !created {
			anyFailed = true
			if isWrite && oversize[i] {
				zz.Assert(status == 413, "bulk/oversized-document-reported-413")
			} else {
				// a failure for any other reason must not be reported as "too large"
				priorOversize := false
				for j := 0; j < i; j++ {
					if oversize[j] && (verifC15Actions[j] == INDEX || verifC15Actions[j] == CREATE) {
						priorOversize = true
					}
				}
				if priorOversize {
					zz.Assert(status == 400, "bulk/after-an-oversized-item/other-failures-keep-their-own-status")
				} else {
					zz.Assert(status == 400, "bulk/failed-item-reported-400")
				}
			}
		}
	}
	errs, _ := resp["errors"].(bool)
	onlyOversizeFailures := true
	for i := 0; i < k; i++ {
		m, _ := items[i].(map[string]interface{})
		if st, ok := m["status"].(int); ok && st != 413 {
			onlyOversizeFailures = false
		}
	}
	if anyFailed && onlyOversizeFailures {
		zz.Assert(errs, "bulk/errors-flag/set-when-only-oversized-items-failed")
	} else {
		zz.Assert(errs == anyFailed, "bulk/errors-flag-iff-some-item-failed")
	}
}
