//go:build verif

package writer

// C15 (what an acknowledged document holds): the parsed event of an accepted document
// carries exactly that document's fields - nothing left over from a document that was
// rejected, or stored, earlier through the same pooled event object.
//
//verif:pkg pkg/segment/writer
//verif:entry VerifC15PooledEventHoldsOnlyItsOwnDocument conf=0 replay=no pool=reuse
//verif:bound two bulk requests of one or two documents each, every document one of five concrete texts (two valid objects, an object cut after its first field, an object whose second value is malformed, a non-JSON line); events of a request are released to the pool before the next request; the pool hands back the most recently released event (a legal and the least favourable schedule of sync.Pool)
//verif:outside the item statuses (VerifC15BulkAck), the store, other pooled objects
//verif:assume sync.Pool.Get returns the most recently Put object, else a new one

import (
	zz "github.com/siglens/siglens/pkg/zzverif"
)

func VerifC15PooledEventHoldsOnlyItsOwnDocument() {
	docs := []string{
		`{"a":"x","n":5}`,
		`{"b":"y"}`,
		`{"ghost":"boo","other":`,
		`{"ghost":"boo","n":5x}`,
		`zzz`,
	}
	wantCols := [][]string{{"a", "n"}, {"b"}, nil, nil, nil}
	tsKey := "timestamp"
	var stack [256]byte
	for req := 0; req < 2; req++ {
		n := 1 + zz.Choice(zz.Name("documents", req), 2)
		var ples []*ParsedLogEvent
		for d := 0; d < n; d++ {
			k := zz.Choice(zz.Name("doc", req*2+d), len(docs))
			ple, err := GetNewPLE([]byte(docs[k]), 1000, "ind", &tsKey, stack[:])
			if wantCols[k] == nil {
				zz.Assert(err != nil, "plepool/malformed-document-is-rejected")
				if err == nil {
					ples = append(ples, ple)
				}
				continue
			}
			zz.Assert(err == nil && ple != nil, "plepool/valid-document-is-accepted")
			if err != nil || ple == nil {
				continue
			}
			ples = append(ples, ple)
			zz.Assert(int(ple.numCols) == len(wantCols[k]), "plepool/accepted-event-has-exactly-its-document's-fields")
			for c := 0; c < len(wantCols[k]) && c < int(ple.numCols); c++ {
				zz.Assert(ple.allCnames[c] == wantCols[k][c], "plepool/accepted-event-has-exactly-its-document's-fields")
			}
			zz.Assert(string(ple.GetRawJson()) == docs[k] && ple.GetIndexName() == "ind", "plepool/accepted-event-keeps-its-own-text-and-index")
		}
		ReleasePLEs(ples)
	}
}
