//go:build verif

package handler

// C12 (service dependency graph): the graph counts exactly the parent-child span pairs that
// cross services - for every span the search holds in the window, not only for those on its
// first result page, and a parent is looked up inside the child's own trace.
//
//verif:pkg pkg/segment/tracing/handler
//verif:entry VerifC12DependencyGraphCountsCrossServicePairs conf=0 replay=no
//verif:stub-always encoding/json.Marshal verifC12dgMarshal
//verif:stub-always encoding/json.Unmarshal verifC12dgUnmarshal
//verif:stub-always github.com/siglens/siglens/pkg/ast/pipesearch.ProcessPipeSearchRequest verifC12dgSearch
//verif:stub-always (*github.com/valyala/fasthttp.Request).SetBody verifC12dgSetBody
//verif:stub-always (*github.com/valyala/fasthttp.RequestHeader).SetMethod verifC12dgSetMethod
//verif:stub-always (*github.com/valyala/fasthttp.Response).Body verifC12dgBody
//verif:bound the window holds F filler root spans of a third service (F = 0, the request's page size - 2, or the page size) followed by four spans of two traces: per span a free service out of {a, b}, a parent out of {none, another of the four ids, an id that exists nowhere}; the two traces may reuse each other's span ids; MakeTracesDependancyGraph
//verif:outside the search itself (the stub serves rows [from, from+size) of the window's spans, with the search API's defaults size=100, from=0), JSON encoding, the hourly thread and the ingestion of the matrix, duplicate span ids inside one trace
//verif:assume json.Marshal records the request's paging fields, ProcessPipeSearchRequest is a no-op and json.Unmarshal supplies the page the recorded request asks for

import (
	"github.com/valyala/fasthttp"

	"github.com/siglens/siglens/pkg/segment/tracing/structs"
	zz "github.com/siglens/siglens/pkg/zzverif"
)

var (
	verifC12dgSpans    []*structs.Span
	verifC12dgFrom     int
	verifC12dgSize     int
	verifC12dgRequests int
)

func verifC12dgNum(v interface{}, def int) int {
	switch x := v.(type) {
	case int:
		return x
	case int64:
		return int(x)
	case uint64:
		return int(x)
	case float64:
		return int(x)
	}
	return def
}

func verifC12dgMarshal(v any) ([]byte, error) {
	verifC12dgFrom, verifC12dgSize = 0, 100 // the search API's defaults
	switch r := v.(type) {
	case map[string]interface{}:
		if s, ok := r["size"]; ok && verifC12dgNum(s, 0) != 0 {
			verifC12dgSize = verifC12dgNum(s, 100)
		}
		if f, ok := r["from"]; ok {
			verifC12dgFrom = verifC12dgNum(f, 0)
		}
	case structs.SearchRequestBody:
		if r.Size != 0 {
			verifC12dgSize = r.Size
		}
		verifC12dgFrom = r.From
	case *structs.SearchRequestBody:
		if r.Size != 0 {
			verifC12dgSize = r.Size
		}
		verifC12dgFrom = r.From
	}
	return []byte("{}"), nil
}

func verifC12dgUnmarshal(data []byte, v any) error {
	if p, ok := v.(*structs.RawSpanData); ok {
		lo, hi := verifC12dgFrom, verifC12dgFrom+verifC12dgSize
		if lo > len(verifC12dgSpans) {
			lo = len(verifC12dgSpans)
		}
		if hi > len(verifC12dgSpans) {
			hi = len(verifC12dgSpans)
		}
		p.Hits.Spans = verifC12dgSpans[lo:hi]
	}
	return nil
}

func verifC12dgSearch(ctx *fasthttp.RequestCtx, myid int64) {
	verifC12dgRequests++
	zz.Assume(verifC12dgRequests < 8)
}
func verifC12dgSetBody(req *fasthttp.Request, body []byte)    {}
func verifC12dgSetMethod(h *fasthttp.RequestHeader, m string) {}
func verifC12dgBody(resp *fasthttp.Response) []byte           { return nil }

func VerifC12DependencyGraphCountsCrossServicePairs() {
	verifC12dgRequests = 0
	// learn the page size the function asks for from its first request
	verifC12dgSpans = nil
	_ = MakeTracesDependancyGraph(0, 3600000, 0)
	page := verifC12dgSize
	verifC12dgRequests = 0

	filler := []int{0, page - 2, page}[zz.Choice("fillerSpans", 3)]
	spans := make([]*structs.Span, 0, filler+4)
	for i := 0; i < filler; i++ {
		spans = append(spans, &structs.Span{TraceID: "tf", SpanID: zz.Name("f", i), Service: "filler"})
	}
	services := []string{"a", "b"}
	ids := []string{"s0", "s1"}
	traces := []string{"t0", "t0", "t1", "t1"}
	var own [4]*structs.Span
	reuse := zz.Choice("reuseIdsAcrossTraces", 2) == 1
	for i := 0; i < 4; i++ {
		sp := &structs.Span{TraceID: traces[i], SpanID: ids[i%2], Service: services[zz.Choice(zz.Name("service", i), 2)]}
		if !reuse {
			sp.SpanID = traces[i] + ids[i%2]
		}
		own[i] = sp
		spans = append(spans, sp)
	}
	for i := 0; i < 4; i++ {
		switch zz.Choice(zz.Name("parent", i), 3) {
		case 1:
			own[i].ParentSpanID = own[i^1].SpanID // the other span of the same trace
		case 2:
			own[i].ParentSpanID = "nowhere"
		}
	}
	verifC12dgSpans = spans

	got := MakeTracesDependancyGraph(0, 3600000, 0)

	want := map[string]map[string]int{}
	for i := 0; i < 4; i++ {
		c := own[i]
		if c.ParentSpanID == "" || c.ParentSpanID == "nowhere" {
			continue
		}
		p := own[i^1]
		if p.Service == c.Service {
			continue
		}
		if want[p.Service] == nil {
			want[p.Service] = map[string]int{}
		}
		want[p.Service][c.Service]++
	}
	for _, from := range []string{"a", "b", "filler"} {
		for _, to := range []string{"a", "b", "filler"} {
			zz.Assert(got[from][to] == want[from][to], "depgraph/edge-count-equals-the-cross-service-parent-child-pairs")
		}
	}
}
