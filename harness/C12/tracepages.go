//go:build verif

package handler

// C12 (trace search paging): walking the pages of a trace search lists every trace of the
// window exactly once.
//
//verif:pkg pkg/segment/tracing/handler
//verif:entry VerifC12TracePagesListEveryTraceOnce conf=4
//verif:bound 0, 1, 49, 50, 51, 99, 100, 101 or 120 distinct traces (page size 50), pages 1 .. last+1; GetUniqueTraceIds
//verif:outside the generated SPL queries and their execution, buckets with other than one group-by value

import (
	segstructs "github.com/siglens/siglens/pkg/segment/structs"
	zz "github.com/siglens/siglens/pkg/zzverif"
)

func VerifC12TracePagesListEveryTraceOnce() {
	totals := []int{0, 1, 49, 50, 51, 99, 100, 101, 120}
	total := totals[zz.Choice("traces", len(totals))]
	resp := &segstructs.PipeSearchResponseOuter{BucketCount: total}
	for i := 0; i < total; i++ {
		resp.MeasureResults = append(resp.MeasureResults, &segstructs.BucketHolder{GroupByValues: []string{zz.Name("trace", i)}})
	}
	seen := map[string]int{}
	listed := 0
	lastPage := (total+TRACE_PAGE_LIMIT-1)/TRACE_PAGE_LIMIT + 1
	for page := 1; page <= lastPage; page++ {
		ids := GetUniqueTraceIds(resp, 0, 1, page)
		zz.Assert(len(ids) <= TRACE_PAGE_LIMIT, "tracepages/page-size")
		for _, id := range ids {
			seen[id]++
			listed++
		}
	}
	zz.Observe("listed", listed)
	zz.Assert(listed == total && len(seen) == total, "tracepages/every-trace-on-exactly-one-page")
}
