//go:build verif

package handler

// C12 (RED metrics): the per-service record written by the RED job holds the rate, the error
// percentage and the latency percentiles of exactly that service's entry spans - spans without
// a parent, with a parent that is not in the window, or whose parent (inside the span's own
// trace) belongs to another service.
//
//verif:pkg pkg/segment/tracing/handler
//verif:entry VerifC12RedMetricsOfEntrySpans conf=0 replay=no
//verif:stub-always encoding/json.Marshal verifC12redMarshal
//verif:stub-always encoding/json.Unmarshal verifC12redUnmarshal
//verif:stub-always github.com/siglens/siglens/pkg/ast/pipesearch.ProcessPipeSearchRequest verifC12redSearch
//verif:stub-always (*github.com/valyala/fasthttp.Request).SetBody verifC12redSetBody
//verif:stub-always (*github.com/valyala/fasthttp.RequestHeader).SetMethod verifC12redSetMethod
//verif:stub-always (*github.com/valyala/fasthttp.Response).Body verifC12redBody
//verif:stub-always github.com/siglens/siglens/pkg/segment/writer.GetNewPLE verifC12redGetNewPLE
//verif:stub-always github.com/siglens/siglens/pkg/es/writer.ProcessIndexRequestPle verifC12redProcess
//verif:stub-always github.com/siglens/siglens/pkg/usageStats.UpdateTracesStats verifC12redNoStats
//verif:stub-always github.com/siglens/siglens/pkg/utils.GetCurrentTimeInMs verifC12redNow
//verif:bound four spans of two traces (two each): free service out of {a, b}, the first span of a trace has no parent or an unknown one, the second none / its sibling / an unknown one, the second spans have a free error status, fixed distinct durations; the traces may reuse each other's span ids; ProcessRedTracesIngest
//verif:outside the search itself (the stub serves rows [from, from+size) of the window's spans), JSON encoding and the ingestion of the records, the percentile computation on more than a few values (VerifC12Percentile), windows of more than one result page (same loop as the dependency graph's)
//verif:assume json.Marshal records the request's paging fields and captures the metric records, json.Unmarshal supplies the requested page; the reference percentiles are computed with FindPercentileData on the entry spans' durations

import (
	"github.com/valyala/fasthttp"

	"github.com/siglens/siglens/pkg/segment/tracing/structs"
	tutils "github.com/siglens/siglens/pkg/segment/tracing/utils"
	segwriter "github.com/siglens/siglens/pkg/segment/writer"
	zz "github.com/siglens/siglens/pkg/zzverif"
)

var (
	verifC12redSpans    []*structs.Span
	verifC12redFrom     int
	verifC12redSize     int
	verifC12redRequests int
	verifC12redRecords  []map[string]interface{}
)

func verifC12redMarshal(v any) ([]byte, error) {
	switch r := v.(type) {
	case map[string]interface{}:
		cp := map[string]interface{}{}
		for k, val := range r {
			cp[k] = val
		}
		verifC12redRecords = append(verifC12redRecords, cp)
	case structs.SearchRequestBody:
		verifC12redFrom, verifC12redSize = r.From, 100
		if r.Size != 0 {
			verifC12redSize = r.Size
		}
	}
	return []byte("{}"), nil
}

func verifC12redUnmarshal(data []byte, v any) error {
	if p, ok := v.(*structs.RawSpanData); ok {
		lo, hi := verifC12redFrom, verifC12redFrom+verifC12redSize
		if lo > len(verifC12redSpans) {
			lo = len(verifC12redSpans)
		}
		if hi > len(verifC12redSpans) {
			hi = len(verifC12redSpans)
		}
		p.Hits.Spans = verifC12redSpans[lo:hi]
	}
	return nil
}

func verifC12redSearch(ctx *fasthttp.RequestCtx, myid int64) {
	verifC12redRequests++
	zz.Assume(verifC12redRequests < 8)
}
func verifC12redSetBody(req *fasthttp.Request, body []byte)    {}
func verifC12redSetMethod(h *fasthttp.RequestHeader, m string) {}
func verifC12redBody(resp *fasthttp.Response) []byte           { return nil }
func verifC12redGetNewPLE(rawJson []byte, tsNow uint64, indexName string, tsKey *string, jsParsingStackbuf []byte) (*segwriter.ParsedLogEvent, error) {
	return segwriter.NewPLE(), nil
}
func verifC12redProcess(tsNow uint64, indexNameIn string, flush bool, localIndexMap map[string]string, myid int64, rid uint64,
	idxToStreamIdCache map[string]string, cnameCacheByteHashToStr map[uint64]string, jsParsingStackbuf []byte, pleArray []*segwriter.ParsedLogEvent) error {
	return nil
}
func verifC12redNoStats(traceBytesCount uint64, traceSpanCount uint64, orgid int64) {}
func verifC12redNow() uint64                                                        { return 1700000000000 }

func VerifC12RedMetricsOfEntrySpans() {
	verifC12redRequests, verifC12redRecords = 0, nil
	services := []string{"a", "b"}
	ids := []string{"s0", "s1"}
	traces := []string{"t0", "t0", "t1", "t1"}
	durations := []uint64{10e6, 40e6, 20e6, 80e6}
	reuse := zz.Choice("reuseIdsAcrossTraces", 2) == 1
	var own [4]*structs.Span
	for i := 0; i < 4; i++ {
		sp := &structs.Span{TraceID: traces[i], SpanID: ids[i%2], Service: services[zz.Choice(zz.Name("service", i), 2)], Duration: durations[i]}
		if !reuse {
			sp.SpanID = traces[i] + ids[i%2]
		}
		if i%2 == 1 && zz.Choice(zz.Name("error", i), 2) == 1 {
			sp.Status = string(structs.Status_STATUS_CODE_ERROR)
		}
		own[i] = sp
	}
	parentInWindow := [4]bool{}
	for i := 0; i < 4; i++ {
		shapes := 2
		if i%2 == 1 {
			shapes = 3
		}
		switch zz.Choice(zz.Name("parent", i), shapes) {
		case 1:
			own[i].ParentSpanID = "nowhere"
		case 2:
			own[i].ParentSpanID = own[i^1].SpanID
			parentInWindow[i] = true
		}
	}
	verifC12redSpans = own[:]

	ProcessRedTracesIngest(0)

	type ref struct {
		cnt, errs int
		durs      []uint64
	}
	want := map[string]*ref{}
	for i := 0; i < 4; i++ {
		sp := own[i]
		if parentInWindow[i] && own[i^1].Service == sp.Service {
			continue // not an entry span
		}
		r := want[sp.Service]
		if r == nil {
			r = &ref{}
			want[sp.Service] = r
		}
		r.cnt++
		if sp.Status == string(structs.Status_STATUS_CODE_ERROR) {
			r.errs++
		}
		r.durs = append(r.durs, durations[i]/1000000)
	}
	got := map[string]map[string]interface{}{}
	for _, rec := range verifC12redRecords {
		svc, _ := rec["service"].(string)
		zz.Assert(got[svc] == nil, "red/one-record-per-service")
		got[svc] = rec
	}
	for _, svc := range services {
		r, rec := want[svc], got[svc]
		zz.Assert((r == nil) == (rec == nil), "red/a-record-iff-the-service-has-entry-spans")
		if r == nil || rec == nil {
			continue
		}
		rate, _ := rec["rate"].(float64)
		errRate, _ := rec["error_rate"].(float64)
		zz.Assert(rate == float64(r.cnt)/60, "red/rate-counts-the-service's-entry-spans")
		zz.Assert(errRate == float64(r.errs)/float64(r.cnt)*100, "red/error-rate-of-the-service's-entry-spans")
		for _, pc := range []struct {
			key string
			p   int
		}{{"p50", 50}, {"p90", 90}, {"p95", 95}, {"p99", 99}} {
			v, _ := rec[pc.key].(float64)
			zz.Assert(v == tutils.FindPercentileData(append([]uint64(nil), r.durs...), pc.p), "red/latency-percentiles-of-the-service's-entry-spans")
		}
	}
}
