//go:build verif

package utils

// C12: trace views agree with the spans — latency percentiles are order
// statistics of the durations; the span tree contains every span exactly once
// beneath its parent; malformed traces never hang or crash.
//
//verif:pkg pkg/segment/tracing/utils
//verif:entry VerifC12QuickSelect conf=6
//verif:entry VerifC12Percentile conf=6
//verif:entry VerifC12SpanTree conf=6
//verif:bound quickSelect/FindPercentileData[uint64]: N in 1..4 (quick) / 1..6 (thorough) durations, each < 2^45, every rank k / percentile in {0,50,90,95,99,100}; recursion bounded by the call-depth budget (a non-shrinking recursion is reported as a hang)
//verif:bound BuildSpanTree: 3 spans, each parent in {root, a, b, c, missing id, no entry}, symbolic start/end times
//verif:outside generated trace-search queries, paging, dependency graph and RED aggregation code inlined in the handlers, OTLP decoding
//verif:assume call-site precondition of FindPercentileData: ProcessRedTracesIngest divides nanosecond durations by 1e6, so values are < 2^45 (the pivot average (a+b)/2 cannot overflow)
//verif:assume sort.Slice is modelled as a stable insertion sort calling the real less closure

import (
	"math"

	"github.com/siglens/siglens/pkg/segment/tracing/structs"
	zz "github.com/siglens/siglens/pkg/zzverif"
)

func verifC12Input() ([]uint64, int) {
	maxN := 4
	if zz.Tier() > 0 {
		maxN = 6
	}
	n := 1 + zz.Choice("n", maxN)
	arr := make([]uint64, n)
	for i := range arr {
		arr[i] = zz.U64Range(zz.Name("d", i), 0, 1<<45-1)
	}
	return arr, n
}

func verifC12Rank(arr []uint64, r uint64) (less, leq int) {
	for _, x := range arr {
		if x < r {
			less++
		}
		if x <= r {
			leq++
		}
	}
	return
}

func VerifC12QuickSelect() {
	arr, n := verifC12Input()
	k := zz.Choice("k", n)
	cp := append([]uint64(nil), arr...)
	r := quickSelect(cp, k, nil)
	zz.Observe("r", r)
	less, leq := verifC12Rank(arr, r)
	zz.Assert(less <= k && k < leq, "quickselect/result-has-rank-k")
}

func VerifC12Percentile() {
	arr, n := verifC12Input()
	ps := []int{0, 50, 90, 95, 99, 100}
	p := ps[zz.Choice("p", len(ps))]
	cp := append([]uint64(nil), arr...)
	res := FindPercentileData(cp, p)
	zz.Observe("res", res)
	floorK := p * (n - 1) / 100
	ceilK := floorK
	if p*(n-1)%100 != 0 {
		ceilK++
	}
	// the order statistics themselves are checked in VerifC12QuickSelect; here the
	// result must be bracketed by the elements of rank floor(k) and ceil(k)
	lo := quickSelect(append([]uint64(nil), arr...), floorK, nil)
	hi := quickSelect(append([]uint64(nil), arr...), ceilK, nil)
	// linear interpolation between the two ranked elements (the specification
	// itself, evaluated in the same IEEE arithmetic)
	want := float64(lo)
	if floorK != ceilK {
		k := float64(p*(n-1)) / float64(100)
		want = float64(lo) + (float64(hi)-float64(lo))*(k-float64(floorK))
	}
	zz.Assert(math.Float64bits(res) == math.Float64bits(want), "percentile/interpolates-between-ranked-elements")
}

func VerifC12SpanTree() {
	ids := []string{"a", "b", "c"}
	parents := []string{"", "a", "b", "c", "zz"}
	spanMap := map[string]*structs.GanttChartSpan{}
	idToParent := map[string]string{}
	starts := make([]uint64, 3)
	par := make([]int, 3)
	for i, id := range ids {
		starts[i] = zz.U64Range(zz.Name("start", i), 0, 1<<50)
		dur := zz.U64Range(zz.Name("dur", i), 0, 1<<40)
		spanMap[id] = &structs.GanttChartSpan{SpanID: id, StartTime: starts[i], EndTime: starts[i] + dur}
		par[i] = zz.Choice(zz.Name("parent", i), 6) // 5 = no entry at all
		if par[i] < 5 {
			idToParent[id] = parents[par[i]]
		}
	}
	hasRoot := par[0] == 0 || par[1] == 0 || par[2] == 0
	root, err := BuildSpanTree(spanMap, idToParent)
	zz.Assert((err != nil) == !hasRoot, "spantree/error-iff-no-root")
	if err != nil {
		return
	}
	zz.Assert(root != nil && idToParent[root.SpanID] == "" && par[int(root.SpanID[0]-'a')] == 0, "spantree/root-is-a-root-span")
	rootStart := starts[int(root.SpanID[0]-'a')]
	for i, id := range ids {
		sp := spanMap[id]
		zz.Assert(sp.ActualStartTime == starts[i], "spantree/actual-start-kept")
		zz.Assert(sp.StartTime == starts[i]-rootStart, "spantree/relative-start")
		for j, pid := range ids {
			cnt := 0
			for _, ch := range spanMap[pid].Children {
				if ch == sp {
					cnt++
				}
			}
			want := 0
			if par[i] == j+1 {
				want = 1
			}
			zz.Assert(cnt == want, "spantree/child-exactly-once-under-its-parent-only")
		}
	}
}
