//go:build verif

package writer

// helper for the C03 bloom harness: the writer's own bloom feeding and the raw match check.
//
//verif:pkg pkg/segment/writer

import (
	"github.com/bits-and-blooms/bloom/v3"
	"github.com/siglens/siglens/pkg/segment/structs"
)

func VerifC03AddToBloom(bf *bloom.BloomFilter, value []byte, ownBuffer bool) {
	if ownBuffer {
		// the main string-column path (AddBloomsForColumn) passes a separate work buffer
		buf := make([]byte, len(value))
		_, _ = addToBlockBloomBothCasesWithBuf(bf, append([]byte{}, value...), buf)
		return
	}
	// dictionary-array tags and the mixed-column rewrite call the wrapper
	addToBlockBloomBothCases(bf, append([]byte{}, value...))
}

func VerifC03RawMatch(mf *structs.MatchFilter, rec []byte, caseInsensitive bool) (bool, error) {
	return ApplySearchToMatchFilterRawCsg(mf, rec, nil, caseInsensitive)
}
