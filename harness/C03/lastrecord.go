//go:build verif

package writer

// C03 (persistent queries, record level): the ingest-time search that fills a persistent
// query's match set reads, for every column, "the last record" of the column buffer. After an
// event has been filled in, that record must be the event's own value in that column - the
// backfill marker if the event does not carry the column - i.e. exactly the bytes a raw search
// of the finished block reads for that event. Otherwise the stored match set answers for the
// previous event's value.
//
//verif:pkg pkg/segment/writer
//verif:entry VerifC03StreamingSearchReadsTheEventsOwnRecord conf=0 replay=no
//verif:stub-always github.com/bits-and-blooms/bloom/v3.NewWithEstimates verifC03lrNoBloom
//verif:stub-always github.com/siglens/siglens/pkg/segment/writer.addSegStatsStrIngestion verifC03lrNoStatsStr
//verif:stub-always github.com/siglens/siglens/pkg/segment/writer.addSegStatsBool verifC03lrNoStatsBool
//verif:stub-always github.com/siglens/siglens/pkg/segment/writer.addSegStatsNums verifC03lrNoStatsNums
//verif:stub-always github.com/siglens/siglens/pkg/segment/writer.addRollup verifC03lrNoRollup
//verif:bound a fresh block filled with 2 (quick) / 3 (thorough) events through parseSingle*/doLogEventFilling; each event carries any subset of the columns {a, b}, each value a 1-byte string, a bool, an int64 or an explicit null, free contents; after every event ColWip.getLastRecord() of every column known so far is compared with the event's own encoded value
//verif:outside the evaluation of the query on those bytes (the checker functions shared with the raw search: C02), the node combination (VerifC03StreamingSearchAgreesWithRawSearch), dictionary bookkeeping (switched off), bloom filters, statistics and rollups (stubbed: none of them writes the column buffers)

import (
	"github.com/bits-and-blooms/bloom/v3"
	"github.com/siglens/siglens/pkg/segment/structs"
	sutils "github.com/siglens/siglens/pkg/segment/utils"
	zz "github.com/siglens/siglens/pkg/zzverif"
)

func verifC03lrNoBloom(n uint, fp float64) *bloom.BloomFilter                                    { return nil }
func verifC03lrNoStatsStr(segstats map[string]*structs.SegStats, cname string, valBytes []byte)  {}
func verifC03lrNoStatsBool(segstats map[string]*structs.SegStats, cname string, valBytes []byte) {}
func verifC03lrNoStatsNums(segstats map[string]*structs.SegStats, cname string, inNumType sutils.SS_IntUintFloatTypes, intVal int64,
	uintVal uint64, fltVal float64, valBytes []byte) {
}
func verifC03lrNoRollup(rrmap map[uint64]*RolledRecs, rolledTs uint64, lastRecNum uint16) {}

func VerifC03StreamingSearchReadsTheEventsOwnRecord() {
	nev := 2
	if zz.Tier() > 0 {
		nev = 3
	}
	tsKey := "timestamp"
	ss := NewSegStore(0)
	ss.SegmentKey = "/d/seg/0"
	ss.initWipBlock()
	ss.skipDe = true
	cols := []string{"a", "b"}
	for e := 0; e < nev; e++ {
		ple := NewPLE()
		ple.SetTimestamp(zz.U64Range(zz.Name("ts", e), 1, 1<<45))
		own := map[string][]byte{}
		for _, c := range cols {
			name := zz.Name(c+".ev", e)
			var tlv []byte
			switch zz.Choice(name+".kind", 5) {
			case 0: // column absent from this event
			case 1:
				val := zz.Bytes(name+".str", 1)
				parseSingleString(c, &tsKey, val, ple)
				tlv = append([]byte{sutils.VALTYPE_ENC_SMALL_STRING[0], 1, 0}, val...)
			case 2:
				b := zz.Bool(name + ".bool")
				parseSingleBool(c, b, &tsKey, ple)
				tlv = []byte{sutils.VALTYPE_ENC_BOOL[0], 0}
				if b {
					tlv[1] = 1
				}
			case 3:
				v := zz.I64(name + ".int")
				parseSingleNumber(c, v, &tsKey, nil, ple)
				tlv = []byte{sutils.VALTYPE_ENC_INT64[0]}
				for k := 0; k < 8; k++ {
					tlv = append(tlv, byte(uint64(v)>>(8*uint(k))))
				}
			case 4:
				parseSingleNull(c, &tsKey, ple)
				tlv = []byte{sutils.VALTYPE_ENC_BACKFILL[0]}
			}
			own[c] = tlv
		}
		_, err := ss.doLogEventFilling(ple, &tsKey)
		zz.Assert(err == nil, "lastrecord/fill-no-error")
		for _, c := range cols {
			colWip, ok := ss.wipBlock.colWips[c]
			if !ok {
				// a query on a column no event carried so far selects nothing, as the raw search does
				zz.Assert(own[c] == nil, "lastrecord/column-known-once-an-event-carried-it")
				continue
			}
			exp := own[c]
			if exp == nil {
				exp = []byte{sutils.VALTYPE_ENC_BACKFILL[0]}
			}
			got := colWip.getLastRecord()
			same := len(got) == len(exp)
			for k := 0; same && k < len(exp); k++ {
				if got[k] != exp[k] {
					same = false
				}
			}
			zz.Assert(same, "lastrecord/streaming-search-reads-the-event's-own-value")
		}
		ss.wipBlock.blockSummary.RecCount++
		ss.RecordCount++
	}
}
