//go:build verif

package writer

// C03-H1 (writer side): the range micro-index brackets every value it has seen,
// across type changes of the column (unsigned -> signed -> float).
//
//verif:pkg pkg/segment/writer
//verif:entry VerifC03RangeIndexBracketsValues conf=6
//verif:bound one inductive step: an arbitrary index entry (any of the three numeric types, |bounds| <= 2^53) that brackets an arbitrary earlier value, plus one new value of any numeric type with |v| <= 2^53; the updated entry must bracket both, by value

import (
	"github.com/siglens/siglens/pkg/segment/structs"
	sutils "github.com/siglens/siglens/pkg/segment/utils"
	zz "github.com/siglens/siglens/pkg/zzverif"
)

func verifC03Bounds(n *structs.Numbers) (float64, float64) {
	switch n.NumType {
	case sutils.RNT_UNSIGNED_INT:
		return float64(n.Min_uint64), float64(n.Max_uint64)
	case sutils.RNT_SIGNED_INT:
		return float64(n.Min_int64), float64(n.Max_int64)
	}
	return n.Min_float64, n.Max_float64
}

func VerifC03RangeIndexBracketsValues() {
	const lim = 1 << 53
	ri := map[string]*structs.Numbers{}
	hasPrev := zz.Choice("hasPrev", 2) == 1
	var prev float64
	if hasPrev {
		n := &structs.Numbers{}
		switch zz.Choice("indexType", 3) {
		case 0:
			n.NumType = sutils.RNT_UNSIGNED_INT
			n.Min_uint64, n.Max_uint64 = zz.U64Range("min", 0, lim), zz.U64Range("max", 0, lim)
			p := zz.U64Range("prev", 0, lim)
			zz.Assume(n.Min_uint64 <= p && p <= n.Max_uint64)
			prev = float64(p)
		case 1:
			n.NumType = sutils.RNT_SIGNED_INT
			n.Min_int64, n.Max_int64 = zz.I64("min"), zz.I64("max")
			p := zz.I64("prev")
			zz.Assume(-lim <= n.Min_int64 && n.Min_int64 <= p && p <= n.Max_int64 && n.Max_int64 <= lim)
			prev = float64(p)
		case 2:
			n.NumType = sutils.RNT_FLOAT64
			n.Min_float64, n.Max_float64 = zz.F64("min"), zz.F64("max")
			p := zz.F64("prev")
			zz.Assume(-lim <= n.Min_float64 && n.Min_float64 <= p && p <= n.Max_float64 && n.Max_float64 <= lim)
			prev = p
		}
		ri["col"] = n
	}
	var v float64
	switch zz.Choice("newType", 3) {
	case 0:
		x := zz.I64("newInt")
		zz.Assume(-lim <= x && x <= lim)
		v = float64(x)
		updateRangeIndex("col", ri, sutils.SS_INT64, x, 0, 0)
	case 1:
		x := zz.U64Range("newUint", 0, lim)
		v = float64(x)
		updateRangeIndex("col", ri, sutils.SS_UINT64, 0, x, 0)
	case 2:
		x := zz.F64("newFloat")
		zz.Assume(-lim <= x && x <= lim)
		v = x
		updateRangeIndex("col", ri, sutils.SS_FLOAT64, 0, 0, x)
	}
	n := ri["col"]
	zz.Assert(n != nil, "rangeupdate/entry-exists")
	lo, hi := verifC03Bounds(n)
	zz.Observe("lo", lo)
	zz.Observe("hi", hi)
	zz.Assert(lo <= v && v <= hi, "rangeupdate/new-value-inside-bracket")
	if hasPrev {
		zz.Assert(lo <= prev && prev <= hi, "rangeupdate/earlier-values-stay-inside-bracket")
	}
}
