//go:build verif

package metautils

// C03-H1 (query side): the range micro-index may only skip blocks that contain
// no matching value: for every value inside the index bracket and every literal
// and operator, "value op literal" (by value) implies the block is kept.
//
//verif:pkg pkg/segment/query/metadata/metautils
//verif:entry VerifC03RangeIndexKeepsMatchingBlocks conf=6
//verif:entry VerifC03TimePruning conf=6
//verif:stub github.com/siglens/siglens/pkg/common/dtypeutils.ConvertToInt verifC03ConvertToInt
//verif:stub github.com/siglens/siglens/pkg/common/dtypeutils.ConvertToUInt verifC03ConvertToUInt
//verif:stub github.com/siglens/siglens/pkg/common/dtypeutils.ConvertToFloat verifC03ConvertToFloat
//verif:bound index entry of any numeric type (unsigned / signed / float64) with |bounds| <= 2^53 and min <= max; a stored value anywhere inside the bracket; literal: negative integer, non-negative integer or decimal with |v| <= 2^53; all six operators
//verif:bound time pruning: 1..3 block summaries with free LowTs <= HighTs and a record timestamp inside its block
//verif:outside bloom filters, PQS/pqmr persistence, sort index, agile tree, rollups, .sst fast paths, query parallelism
//verif:assume the literal reaches the index check as a string and is re-parsed by dtypeutils.ConvertTo{Int,UInt,Float} (strconv); under the engine these are contract stubs: an integer-typed parse fails exactly when the literal is not an integer of that signedness

import (
	"errors"
	"strconv"

	dtu "github.com/siglens/siglens/pkg/common/dtypeutils"
	"github.com/siglens/siglens/pkg/segment/structs"
	sutils "github.com/siglens/siglens/pkg/segment/utils"
	zz "github.com/siglens/siglens/pkg/zzverif"
)

var verifC03LitIsFloat bool
var verifC03LitInt int64
var verifC03LitFlt float64

func verifC03ConvertToInt(exp interface{}, bytes int) (int64, error) {
	if verifC03LitIsFloat {
		return 0, errors.New("strconv.ParseInt: invalid syntax")
	}
	return verifC03LitInt, nil
}

func verifC03ConvertToUInt(exp interface{}, bytes int) (uint64, error) {
	if verifC03LitIsFloat || verifC03LitInt < 0 {
		return 0, errors.New("strconv.ParseUint: invalid syntax")
	}
	return uint64(verifC03LitInt), nil
}

func verifC03ConvertToFloat(exp interface{}, bytes int) (float64, error) {
	if verifC03LitIsFloat {
		return verifC03LitFlt, nil
	}
	return float64(verifC03LitInt), nil
}

func verifC03Abs(x float64) float64 {
	if x < 0 {
		return -x
	}
	return x
}

func VerifC03RangeIndexKeepsMatchingBlocks() {
	const lim = 1 << 53
	ri := &structs.Numbers{}
	var lo, hi, v float64 // bracket and a stored value, by value
	switch zz.Choice("indexType", 3) {
	case 0:
		ri.NumType = sutils.RNT_UNSIGNED_INT
		ri.Min_uint64, ri.Max_uint64 = zz.U64Range("min", 0, lim), zz.U64Range("max", 0, lim)
		zz.Assume(ri.Min_uint64 <= ri.Max_uint64)
		x := zz.U64Range("value", 0, lim)
		zz.Assume(ri.Min_uint64 <= x && x <= ri.Max_uint64)
		lo, hi, v = float64(ri.Min_uint64), float64(ri.Max_uint64), float64(x)
	case 1:
		ri.NumType = sutils.RNT_SIGNED_INT
		ri.Min_int64, ri.Max_int64 = zz.I64("min"), zz.I64("max")
		zz.Assume(-lim <= ri.Min_int64 && ri.Min_int64 <= ri.Max_int64 && ri.Max_int64 <= lim)
		x := zz.I64("value")
		zz.Assume(ri.Min_int64 <= x && x <= ri.Max_int64)
		lo, hi, v = float64(ri.Min_int64), float64(ri.Max_int64), float64(x)
	case 2:
		ri.NumType = sutils.RNT_FLOAT64
		ri.Min_float64, ri.Max_float64 = zz.F64("min"), zz.F64("max")
		zz.Assume(-lim <= ri.Min_float64 && ri.Min_float64 <= ri.Max_float64 && ri.Max_float64 <= lim)
		x := zz.F64("value")
		zz.Assume(ri.Min_float64 <= x && x <= ri.Max_float64)
		lo, hi, v = ri.Min_float64, ri.Max_float64, x
	}
	_, _ = lo, hi
	var lit float64
	litText := "literal"
	if zz.Choice("litIsFloat", 2) == 1 {
		f := zz.F64("litFloat")
		zz.Assume(f == f && verifC03Abs(f) <= lim)
		zz.Assume(f != float64(int64(f))) // a decimal that is not an integer (else it parses as one)
		verifC03LitIsFloat, verifC03LitFlt = true, f
		lit = f
		if !zz.Symbolic() {
			litText = strconv.FormatFloat(f, 'f', -1, 64)
		}
	} else {
		n := zz.I64("litInt")
		zz.Assume(-lim <= n && n <= lim)
		verifC03LitIsFloat, verifC03LitInt = false, n
		lit = float64(n)
		if !zz.Symbolic() {
			litText = strconv.FormatInt(n, 10)
		}
	}
	ops := []sutils.FilterOperator{sutils.Equals, sutils.NotEquals, sutils.LessThan, sutils.LessThanOrEqualTo, sutils.GreaterThan, sutils.GreaterThanOrEqualTo}
	op := ops[zz.Choice("op", len(ops))]
	kept := CheckRangeIndex(map[string]string{"col": litText}, map[string]*structs.Numbers{"col": ri}, op, 0)
	zz.Observe("keptBlock", kept)
	var matches bool
	switch op {
	case sutils.Equals:
		matches = v == lit
	case sutils.NotEquals:
		matches = verifC03Abs(v-lit) >= 0.001 // the record-level check tolerates 1e-4
	case sutils.LessThan:
		matches = v < lit
	case sutils.LessThanOrEqualTo:
		matches = v <= lit
	case sutils.GreaterThan:
		matches = v > lit
	case sutils.GreaterThanOrEqualTo:
		matches = v >= lit
	}
	if verifC03LitIsFloat && ri.NumType != sutils.RNT_FLOAT64 {
		zz.Assert(!matches || kept, "rangeindex/integer-index-decimal-literal/block-with-matching-value-is-kept")
	} else {
		zz.Assert(!matches || kept, "rangeindex/block-with-matching-value-is-kept")
	}
}

func VerifC03TimePruning() {
	n := 1 + zz.Choice("nblocks", 3)
	bsum := make([]*structs.BlockSummary, n)
	for i := range bsum {
		lo, hi := zz.U64(zz.Name("low", i)), zz.U64(zz.Name("high", i))
		zz.Assume(lo <= hi)
		bsum[i] = &structs.BlockSummary{LowTs: lo, HighTs: hi}
	}
	tr := &dtu.TimeRange{StartEpochMs: zz.U64("start"), EndEpochMs: zz.U64("end")}
	zz.Assume(tr.StartEpochMs <= tr.EndEpochMs)
	kept := FilterBlocksByTime(bsum, structs.InitEntireFileBlockTracker(), tr)
	k := zz.Choice("k", n)
	ts := zz.U64("ts")
	zz.Assume(bsum[k].LowTs <= ts && ts <= bsum[k].HighTs)
	_, isKept := kept[uint16(k)]
	zz.Observe("kept", isKept)
	zz.Assert(!tr.CheckInRange(ts) || isKept, "timeprune/block-with-record-in-range-is-kept")
	zz.Assert(len(kept) <= n, "timeprune/no-invented-blocks")
}
