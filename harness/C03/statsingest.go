//go:build verif

package writer

// C03/C04: the statistics pre-aggregated per segment at ingest (count, sum, min, max of a
// numeric column) equal the aggregate computed directly over the ingested values, whatever
// mixture and order of integer and decimal values arrives - so answering from them or from
// a raw scan gives the same result.
//
//verif:pkg pkg/segment/writer
//verif:entry VerifC03IngestStatsEqualRawAggregate conf=8
//verif:stub-always (*github.com/siglens/siglens/pkg/segment/structs.SegStats).CreateNewHll verifC03NoHll
//verif:stub-always (*github.com/siglens/siglens/pkg/segment/structs.SegStats).InsertIntoHll verifC03NoHllInsert
//verif:bound 1..3 (quick) / 1..4 (thorough) values fed to addSegStatsNums in order, each drawn from signed integers {-2^20, -1, 0, 3, 2^20}, unsigned integers {0, 7, 2^20} or decimals {-1.5, 0.5, 1048576.5} (every partial sum is exact in float64, so the order of summation cannot matter); all sequences are explored, the values are concrete on each path (with free integers the obligation to_fp(a+b+c) = fp.add(fp.add(to_fp a, to_fp b), to_fp c) did not finish in any back end: probed, > 20 min for n <= 3)
//verif:outside HyperLogLog / t-digest sketches (stubbed out: they do not touch count, sum, min, max), string and bool columns, the .sst file format, numbers whose sum is inexact in float64

import (
	"github.com/siglens/siglens/pkg/segment/structs"
	sutils "github.com/siglens/siglens/pkg/segment/utils"
	zz "github.com/siglens/siglens/pkg/zzverif"
)

func verifC03NoHll(ss *structs.SegStats)                     {}
func verifC03NoHllInsert(ss *structs.SegStats, value []byte) {}

func VerifC03IngestStatsEqualRawAggregate() {
	maxN := 3
	if zz.Tier() > 0 {
		maxN = 4
	}
	n := 1 + zz.Choice("values", maxN)
	segstats := map[string]*structs.SegStats{}
	var sum, lo, hi float64
	for i := 0; i < n; i++ {
		var v float64
		switch zz.Choice(zz.Name("kind", i), 3) {
		case 0:
			x := []int64{-(1 << 20), -1, 0, 3, 1 << 20}[zz.Choice(zz.Name("int", i), 5)]
			v = float64(x)
			addSegStatsNums(segstats, "c", sutils.SS_INT64, x, 0, 0, nil)
		case 1:
			x := []uint64{0, 7, 1 << 20}[zz.Choice(zz.Name("uint", i), 3)]
			v = float64(x)
			addSegStatsNums(segstats, "c", sutils.SS_UINT64, 0, x, 0, nil)
		case 2:
			v = []float64{-1.5, 0.5, 1048576.5}[zz.Choice(zz.Name("float", i), 3)]
			addSegStatsNums(segstats, "c", sutils.SS_FLOAT64, 0, 0, v, nil)
		}
		sum += v
		if i == 0 || v < lo {
			lo = v
		}
		if i == 0 || v > hi {
			hi = v
		}
	}
	st := segstats["c"]
	zz.Assert(st != nil && st.NumStats != nil, "ingeststats/present")
	if st == nil || st.NumStats == nil {
		return
	}
	zz.Observe("count", st.Count)
	zz.Assert(st.Count == uint64(n) && st.NumStats.NumericCount == uint64(n), "ingeststats/count-is-the-number-of-values")
	var gotSum float64
	if st.NumStats.Sum.Ntype == sutils.SS_DT_FLOAT {
		gotSum = st.NumStats.Sum.FloatVal
	} else {
		gotSum = float64(st.NumStats.Sum.IntgrVal)
	}
	zz.Observe("sum", gotSum)
	zz.Assert(gotSum == sum, "ingeststats/sum-is-the-sum-of-the-values")
	gotMin, err1 := st.Min.GetFloatValue()
	gotMax, err2 := st.Max.GetFloatValue()
	zz.Assert(err1 == nil && err2 == nil, "ingeststats/min-max-numeric")
	zz.Observe("min", gotMin)
	zz.Observe("max", gotMax)
	zz.Assert(gotMin == lo, "ingeststats/min-is-the-smallest-value")
	zz.Assert(gotMax == hi, "ingeststats/max-is-the-largest-value")
}
