//go:build verif

package segread

// C03-H3: the dictionary acceleration path (one check per dictionary word, then every
// record holding that word) selects exactly the records the per-record check selects.
//
//verif:pkg pkg/segment/reader/segread
//verif:load pkg/segment/writer
//verif:entry VerifC03DictionaryPathEqualsRawPath conf=0 replay=no
//verif:bridge verifC03BuildDict github.com/siglens/siglens/pkg/segment/writer.VerifC03BuildDictBlock
//verif:bound a column block of 2 records, each value a 1..2-byte string over {a, A, b}, an int64 or missing, free contents; dictionary block built by the writer (checkAddDictEnc + PackDictEnc), decoded by ReadDictEnc; literal: a 1..2-byte string over the same alphabet (=, !=, case-sensitive or not) or any int64 (six operators); all records valid or any subset of valid records
//verif:outside wildcard/regex literals, free-text match filters (ApplySearchToMatchFilterDictCsg), cardinality above the dictionary limit, zstd and files
//verif:assume the block builder is reached through an engine bridge into package writer (the harness cannot be compiled natively: no replay)

import (
	"github.com/siglens/siglens/pkg/segment/reader/segread/segreader"
	"github.com/siglens/siglens/pkg/segment/structs"
	sutils "github.com/siglens/siglens/pkg/segment/utils"
	"github.com/siglens/siglens/pkg/segment/writer"
	zz "github.com/siglens/siglens/pkg/zzverif"
)

func verifC03BuildDict(tlvs [][]byte, backfill []bool) []byte { panic("bridged") }

func VerifC03DictionaryPathEqualsRawPath() {
	n := 2 // three records (tried for the thorough tier) did not finish in ten minutes
	tlvs := make([][]byte, n)
	backfill := make([]bool, n)
	for i := 0; i < n; i++ {
		switch zz.Choice(zz.Name("kind", i), 3) {
		case 0:
			l := 1 + zz.Choice(zz.Name("strlen", i), 2)
			tlv := []byte{sutils.VALTYPE_ENC_SMALL_STRING[0], byte(l), 0}
			for k := 0; k < l; k++ {
				tlv = append(tlv, zz.ByteIn(zz.Name("str", i)+"_"+zz.Name("", k), "aAb"))
			}
			tlvs[i] = tlv
		case 1:
			v := zz.U64(zz.Name("int", i))
			tlv := []byte{sutils.VALTYPE_ENC_INT64[0]}
			for k := 0; k < 8; k++ {
				tlv = append(tlv, byte(v>>(8*uint(k))))
			}
			tlvs[i] = tlv
		case 2:
			tlvs[i] = []byte{sutils.VALTYPE_ENC_BACKFILL[0]}
			backfill[i] = true
		}
	}
	buf := verifC03BuildDict(tlvs, backfill)
	sfr, err := segreader.InitNewSegFileReader(nil, "c", nil, 0, []*structs.BlockSummary{{RecCount: uint16(n)}}, 0, nil)
	zz.Assume(err == nil)
	zz.Assume(sfr.ReadDictEnc(buf, 0) == nil)

	// ---- literal and operator
	var q *sutils.DtypeEnclosure
	ci := false
	var op sutils.FilterOperator
	if zz.Choice("literalIsString", 2) == 1 {
		l := 1 + zz.Choice("litlen", 2)
		lit := make([]byte, l)
		for k := range lit {
			lit[k] = zz.ByteIn(zz.Name("lit", k), "aAb")
		}
		ci = zz.Choice("caseInsensitive", 2) == 1
		if ci {
			for k, b := range lit {
				if 'A' <= b && b <= 'Z' {
					lit[k] = b + 32
				}
			}
		}
		q = &sutils.DtypeEnclosure{Dtype: sutils.SS_DT_STRING, StringVal: string(lit), StringValBytes: lit}
		op = []sutils.FilterOperator{sutils.Equals, sutils.NotEquals}[zz.Choice("op", 2)]
	} else {
		v := zz.I64("litInt")
		q = &sutils.DtypeEnclosure{Dtype: sutils.SS_DT_SIGNED_NUM, SignedVal: v, UnsignedVal: uint64(v), FloatVal: float64(v)}
		op = []sutils.FilterOperator{sutils.Equals, sutils.NotEquals, sutils.LessThan, sutils.LessThanOrEqualTo,
			sutils.GreaterThan, sutils.GreaterThanOrEqualTo}[zz.Choice("op", 6)]
	}

	// ---- valid records: all, or a subset
	bsh := structs.InitBlockSearchHelper()
	valid := make([]bool, n)
	if zz.Choice("restrictValidRecords", 2) == 1 {
		recs := []uint{}
		for i := 0; i < n; i++ {
			if zz.Choice(zz.Name("valid", i), 2) == 1 {
				valid[i] = true
				recs = append(recs, uint(i))
			}
		}
		bsh.SetValidRecords(recs)
		if len(recs) == 0 {
			// an empty (non-nil) list is "no valid record" for AddMatchedRecord but "all valid" for AddRecNumsToMr's nil test
			zz.Assume(bsh.GetValidRecords() != nil)
		}
	} else {
		for i := range valid {
			valid[i] = true
		}
	}

	any, err := ApplySearchToExpressionFilterDictCsg(sfr, q, op, false, bsh, ci)
	zz.Assert(err == nil, "dictpath/no-error")
	expectAny := false
	for i := 0; i < n; i++ {
		var holder sutils.DtypeEnclosure
		raw, rerr := writer.ApplySearchToExpressionFilterSimpleCsg(q, op, tlvs[i], false, &holder, ci)
		zz.Assume(rerr == nil)
		want := raw && valid[i]
		if raw {
			expectAny = true
		}
		zz.Assert(bsh.DoesRecordMatch(uint(i)) == want, "dictpath/record-selected-iff-the-per-record-check-selects-it")
	}
	zz.Assert(any == expectAny, "dictpath/any-word-matched-flag")
}
