//go:build verif

package writer

// helper for the C03 dictionary-path harness: builds a dictionary-encoded column block
// from record TLVs with the writer's own bookkeeping (checkAddDictEnc + PackDictEnc).
//
//verif:pkg pkg/segment/writer

func VerifC03BuildDictBlock(tlvs [][]byte, backfill []bool) []byte {
	colWip := InitColWip("/d/seg", "c")
	ss := &SegStore{}
	for i, tlv := range tlvs {
		ss.checkAddDictEnc(colWip, tlv, uint16(i), 0, backfill[i])
	}
	PackDictEnc(colWip, uint16(len(tlvs)))
	return append([]byte{}, colWip.cbuf.Slice(0, int(colWip.cbufidx))...)
}
