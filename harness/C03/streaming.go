//go:build verif

package writer

// C03 (persistent queries): the search evaluated on every record at ingest, whose result is
// stored as the persistent query's match set and later served instead of a raw search, selects
// a record iff the query-time evaluation of the same search node selects it:
// (all AND conditions) and (some OR condition, if any are given) and (no NOT condition).
//
//verif:pkg pkg/segment/writer
//verif:entry VerifC03StreamingSearchAgreesWithRawSearch conf=0 replay=no
//verif:stub-always github.com/siglens/siglens/pkg/segment/writer.applySearchSingleQuery verifC03LeafTruth
//verif:bound one record; up to four leaf queries with free truth values; the nine search-node shapes of VerifC02BooleanCombination (AND of two, OR of two, AND with NOT, AND+OR+NOT at one level, AND with a nested OR node, OR with a nested AND node, NOT of a nested OR node, OR with a nested AND-NOT node, NOT alone); applySearchSingleNode / applySearchSingleCondition are the real code
//verif:outside the evaluation of a leaf query on the record (shared with the raw path: the same checker functions), which queries become persistent, PQMR file handling (VerifC07PqmrAppendCrash)
//verif:assume the reference is the query-time semantics that VerifC02BooleanCombination establishes for executeRawSearchOnNode

import (
	"github.com/siglens/siglens/pkg/segment/structs"
	sutils "github.com/siglens/siglens/pkg/segment/utils"
	zz "github.com/siglens/siglens/pkg/zzverif"
)

var verifC03Truth [4]bool

func verifC03LeafTruth(colWips map[string]*ColWip, sQuery *structs.SearchQuery, op sutils.LogicalOperator,
	holderDte *sutils.DtypeEnclosure, tsKey string, segStore *SegStore) bool {
	return verifC03Truth[int(sQuery.QueryInfo.ColName[1]-'0')]
}

func verifC03Cond(nodes []*structs.SearchNode, leaves ...int) *structs.SearchCondition {
	c := &structs.SearchCondition{SearchNode: nodes}
	for _, k := range leaves {
		c.SearchQueries = append(c.SearchQueries, &structs.SearchQuery{QueryInfo: &structs.QueryInfo{ColName: zz.Name("q", k)}})
	}
	return c
}

func VerifC03StreamingSearchAgreesWithRawSearch() {
	for k := range verifC03Truth {
		verifC03Truth[k] = zz.Bool(zz.Name("truthOfQuery", k))
	}
	q := func(k int) bool { return verifC03Truth[k] }
	var node *structs.SearchNode
	var want bool
	switch zz.Choice("shape", 9) {
	case 0:
		node = &structs.SearchNode{AndSearchConditions: verifC03Cond(nil, 0, 1)}
		want = q(0) && q(1)
	case 1:
		node = &structs.SearchNode{OrSearchConditions: verifC03Cond(nil, 0, 1)}
		want = q(0) || q(1)
	case 2:
		node = &structs.SearchNode{AndSearchConditions: verifC03Cond(nil, 0), ExclusionSearchConditions: verifC03Cond(nil, 1)}
		want = q(0) && !q(1)
	case 3:
		node = &structs.SearchNode{AndSearchConditions: verifC03Cond(nil, 0), OrSearchConditions: verifC03Cond(nil, 1, 2),
			ExclusionSearchConditions: verifC03Cond(nil, 3)}
		want = q(0) && (q(1) || q(2)) && !q(3)
	case 4:
		inner := &structs.SearchNode{OrSearchConditions: verifC03Cond(nil, 1, 2)}
		node = &structs.SearchNode{AndSearchConditions: verifC03Cond([]*structs.SearchNode{inner}, 0)}
		want = q(0) && (q(1) || q(2))
	case 5:
		inner := &structs.SearchNode{AndSearchConditions: verifC03Cond(nil, 1, 2)}
		node = &structs.SearchNode{OrSearchConditions: verifC03Cond([]*structs.SearchNode{inner}, 0)}
		want = q(0) || (q(1) && q(2))
	case 6:
		inner := &structs.SearchNode{OrSearchConditions: verifC03Cond(nil, 1, 2)}
		node = &structs.SearchNode{AndSearchConditions: verifC03Cond(nil, 0),
			ExclusionSearchConditions: verifC03Cond([]*structs.SearchNode{inner})}
		want = q(0) && !(q(1) || q(2))
	case 8:
		node = &structs.SearchNode{ExclusionSearchConditions: verifC03Cond(nil, 0)}
		want = !q(0)
	default:
		inner := &structs.SearchNode{AndSearchConditions: verifC03Cond(nil, 1), ExclusionSearchConditions: verifC03Cond(nil, 2)}
		node = &structs.SearchNode{OrSearchConditions: verifC03Cond([]*structs.SearchNode{inner}, 0)}
		want = q(0) || (q(1) && !q(2))
	}
	got := applySearchSingleNode(map[string]*ColWip{}, node, &sutils.DtypeEnclosure{}, "timestamp", &SegStore{})
	zz.Assert(got == want, "streaming/ingest-time-evaluation-agrees-with-the-query-time-evaluation")
}
