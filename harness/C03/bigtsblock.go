//go:build verif

package segread

// C03 (same answer however the events were split into blocks): a timestamp block decodes
// whatever its size - the record counts at which a 16-bit length computation could wrap
// (payloads beyond 65535 bytes) included - so the same events in one big block or in several
// small ones give the same timestamps.
//
//verif:pkg pkg/segment/reader/segread
//verif:entry VerifC03TimestampBlockOfAnySizeDecodes conf=4
//verif:bound one timestamp block of 3, 16384, 32768, 40000 or 65534 records with 8-, 16-, 32- or 64-bit deltas over a free 32-bit base; all deltas zero except the free last one (one byte); convertRawRecordsToTimestamps
//verif:outside free contents of the other records (VerifC01Timestamps covers free contents of small blocks), the file layer
//verif:assume none

import (
	"github.com/siglens/siglens/pkg/segment/structs"
	sutils "github.com/siglens/siglens/pkg/segment/utils"
	zz "github.com/siglens/siglens/pkg/zzverif"
)

func VerifC03TimestampBlockOfAnySizeDecodes() {
	n := []int{3, 16384, 32768, 40000, 65534}[zz.Choice("records", 5)]
	k := zz.Choice("deltaWidth", 4)
	width := []int{1, 2, 4, 8}[k]
	tsType := []byte{structs.TS_Type8, structs.TS_Type16, structs.TS_Type32, structs.TS_Type64}[k]
	base := uint64(zz.U32("base"))
	last := zz.U8("lastDelta")
	raw := make([]byte, 10+n*width)
	raw[0] = sutils.TIMESTAMP_TOPDIFF_VARENC[0]
	raw[1] = tsType
	for b := 0; b < 8; b++ {
		raw[2+b] = byte(base >> (8 * uint(b)))
	}
	raw[10+(n-1)*width] = last
	got, err := convertRawRecordsToTimestamps(raw, uint16(n), nil)
	zz.Observe("failed", err != nil)
	zz.Assert(err == nil, "bigtsblock/a-complete-block-of-any-size-decodes")
	if err != nil {
		return
	}
	zz.Assert(len(got) >= n && got[0] == base && got[n-2] == base && got[n-1] == base+uint64(last), "bigtsblock/every-record-gets-its-own-timestamp")
}
