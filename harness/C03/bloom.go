//go:build verif

package metadata

// C03 (bloom micro-index): a block whose column holds a value matching a word or phrase
// search is never skipped by the bloom check - whatever the value's case and position of the
// words inside it.
//
//verif:pkg pkg/segment/query/metadata
//verif:load pkg/segment/writer
//verif:entry VerifC03BloomKeepsMatchingBlocks conf=0 replay=no
//verif:bridge verifC03AddToBloom github.com/siglens/siglens/pkg/segment/writer.VerifC03AddToBloom
//verif:bridge verifC03RawMatch github.com/siglens/siglens/pkg/segment/writer.VerifC03RawMatch
//verif:stub-always (*github.com/bits-and-blooms/bloom/v3.BloomFilter).TestAndAdd verifC03BloomTestAndAdd
//verif:stub-always (*github.com/bits-and-blooms/bloom/v3.BloomFilter).TestString verifC03BloomTestString
//verif:stub-always (*github.com/siglens/siglens/pkg/segment/metadata.SegmentMicroIndex).GetCMIForBlockAndColumn verifC03Cmi
//verif:bound a string value of 1..3 words of 1 letter over {a, A, b} separated by single spaces, fed to the block bloom by the writer (addToBlockBloomBothCasesWithBuf with its own work buffer, or the addToBlockBloomBothCases wrapper); a search for one word, two words (AND) or a two-word phrase of such words, case-sensitive or case-insensitive (query lower-cased as the parser does); if the per-record check matches the value, doBloomCheckForCol must keep the block
//verif:outside false positives of a real bloom filter (the filter is modelled as the exact set of strings added to it, which can only make the check stricter), wildcard words (bloom skipped), dictionary-array match filters, the all-columns variant
//verif:assume the bloom filter is the exact set of added strings; the column's micro-index is that filter

import (
	"github.com/bits-and-blooms/bloom/v3"
	"github.com/siglens/siglens/pkg/segment/metadata"
	"github.com/siglens/siglens/pkg/segment/structs"
	sutils "github.com/siglens/siglens/pkg/segment/utils"
	zz "github.com/siglens/siglens/pkg/zzverif"
)

var verifC03BloomSet []string
var verifC03Bf = &bloom.BloomFilter{}

func verifC03AddToBloom(bf *bloom.BloomFilter, value []byte, ownBuffer bool) { panic("bridged") }
func verifC03RawMatch(mf *structs.MatchFilter, rec []byte, caseInsensitive bool) (bool, error) {
	panic("bridged")
}

func verifC03BloomHas(s string) bool {
	for _, w := range verifC03BloomSet {
		if w == s {
			return true
		}
	}
	return false
}
func verifC03BloomTestAndAdd(f *bloom.BloomFilter, data []byte) bool {
	had := verifC03BloomHas(string(data))
	verifC03BloomSet = append(verifC03BloomSet, string(data))
	return had
}
func verifC03BloomTestString(f *bloom.BloomFilter, data string) bool { return verifC03BloomHas(data) }
func verifC03Cmi(smi *metadata.SegmentMicroIndex, blkNum uint16, cname string, qid uint64) (*structs.CmiContainer, error) {
	return &structs.CmiContainer{CmiType: sutils.CMI_BLOOM_INDEX[0], Loaded: true, Bf: verifC03Bf}, nil
}

func verifC03Word(name string) []byte {
	n := 1 // words of 1..2 bytes (tried for the thorough tier) did not finish in ten minutes
	b := make([]byte, n)
	for i := range b {
		b[i] = zz.ByteIn(zz.Name(name, i), "aAb")
	}
	return b
}

func verifC03Lower(b []byte) []byte {
	out := make([]byte, len(b))
	for i, c := range b {
		if 'A' <= c && c <= 'Z' {
			c += 32
		}
		out[i] = c
	}
	return out
}

func VerifC03BloomKeepsMatchingBlocks() {
	verifC03BloomSet = nil
	nw := 1 + zz.Choice("valueWords", 3)
	var value []byte
	for i := 0; i < nw; i++ {
		if i > 0 {
			value = append(value, ' ')
		}
		value = append(value, verifC03Word(zz.Name("v", i)+"_")...)
	}
	verifC03AddToBloom(verifC03Bf, value, zz.Choice("writerPassesItsOwnWorkBuffer", 2) == 1)
	rec := append([]byte{sutils.VALTYPE_ENC_SMALL_STRING[0], byte(len(value)), 0}, value...)

	ci := zz.Choice("caseInsensitive", 2) == 1
	q0, q1 := verifC03Word("q0_"), verifC03Word("q1_")
	o0, o1 := q0, q1
	if ci {
		q0, q1 = verifC03Lower(q0), verifC03Lower(q1)
	}
	mf := &structs.MatchFilter{MatchColumn: "c", MatchOperator: sutils.And}
	switch zz.Choice("query", 3) {
	case 0:
		mf.MatchType = structs.MATCH_WORDS
		mf.MatchWords = [][]byte{q0}
		if ci {
			mf.MatchWordsOriginal = [][]byte{o0}
		}
	case 1:
		mf.MatchType = structs.MATCH_WORDS
		mf.MatchWords = [][]byte{q0, q1}
		if ci {
			mf.MatchWordsOriginal = [][]byte{o0, o1}
		}
	case 2:
		mf.MatchType = structs.MATCH_PHRASE
		mf.MatchWords = [][]byte{q0, q1}
		mf.MatchPhrase = append(append(append([]byte{}, q0...), ' '), q1...)
		if ci {
			mf.MatchPhraseOriginal = append(append(append([]byte{}, o0...), ' '), o1...)
		}
	}
	matches, err := verifC03RawMatch(mf, rec, ci)
	zz.Assume(err == nil)
	if !matches {
		return
	}
	query := &structs.SearchQuery{MatchFilter: mf, FilterIsCaseInsensitive: ci}
	bloomKeys, originalKeys, wildcard, op := query.GetAllBlockBloomKeysToSearch()
	zz.Assume(!wildcard)
	blocks := map[uint16]map[string]bool{0: {}}
	doBloomCheckForCol(&metadata.SegmentMicroIndex{}, 0, bloomKeys, originalKeys, op, blocks, map[string]bool{"c": true}, 0)
	_, kept := blocks[0]
	zz.Assert(kept, "bloom/block-with-a-matching-value-is-kept")
}
