//go:build verif

package processor

// C19: the file name of `| inputlookup <name>` comes from the query text; it
// must not make the server read a file outside its data directory.
//
//verif:pkg pkg/segment/query/processor
//verif:entry VerifC19InputLookup conf=0 replay=no
//verif:stub-always github.com/siglens/siglens/pkg/config.GetLookupPath verifC19LookupPath
//verif:stub-always os.Open verifC19Open
//verif:bound inputlookup file name = 0..7 free printable-ASCII bytes followed by ".csv"; the options start, max, append, strict and the first-command / previous-results flags free, directly or after a Rewind; data directory /d/, lookup directory /d/lookups/
//verif:assume os.Open is a path monitor (records the path, fails)

import (
	"errors"
	"os"
	"path/filepath"
	"strings"

	"github.com/siglens/siglens/pkg/segment/structs"
	zz "github.com/siglens/siglens/pkg/zzverif"
)

var verifC19Opened []string

func verifC19LookupPath() string { return "/d/lookups/" }
func verifC19Open(name string) (*os.File, error) {
	verifC19Opened = append(verifC19Opened, name)
	return nil, errors.New("verif: path monitor")
}

func VerifC19InputLookup() {
	verifC19Opened = nil
	n := zz.Choice("len", 8)
	b := zz.Bytes("name", n)
	for _, c := range b {
		zz.Assume(c >= 0x20 && c < 0x7f)
	}
	// every other client-controlled option is free as well: none of them may switch the check off
	start := zz.U64("start")
	opts := &structs.InputLookup{Filename: string(b) + ".csv", IsFirstCommand: zz.Bool("isFirstCommand"), Start: start,
		Max: zz.U64("max"), Append: zz.Bool("append"), Strict: zz.Bool("strict"), HasPrevResults: zz.Bool("hasPrevResults")}
	p := &inputlookupProcessor{options: opts, start: start}
	if zz.Bool("afterRewind") {
		p.Rewind()
	}
	_, _ = p.Process(nil)
	for _, path := range verifC19Opened {
		c := filepath.Clean(path)
		zz.Assert(c == "/d" || strings.HasPrefix(c, "/d/"), "inputlookup/file-access-stays-under-the-data-directory")
	}
}
