//go:build verif

package writer

// C19 (index names): the index name of an ingest request comes from the client (bulk action
// line, HEC "index", Loki/OTLP headers). If the request is accepted, every directory and file
// the server derives from that name must lie inside the data directory.
//
//verif:pkg pkg/es/writer
//verif:entry VerifC19IndexNameStaysInsideDataDir conf=0 replay=no
//verif:stub-always github.com/siglens/siglens/pkg/es/writer.AddAndGetRealIndexName verifC19RealIndexName
//verif:stub-always github.com/siglens/siglens/pkg/utils.CreateStreamId verifC19StreamId
//verif:stub-always github.com/siglens/siglens/pkg/segment/writer.AddEntryToInMemBuf verifC19Capture
//verif:stub-always github.com/siglens/siglens/pkg/config.GetTimeStampKey verifC19TsKey
//verif:stub-always github.com/siglens/siglens/pkg/config.GetDataPath verifC19DataPath
//verif:stub-always github.com/siglens/siglens/pkg/config.GetHostID verifC19HostID
//verif:bound index name = 0..10 free printable-ASCII bytes (the segment directory is three levels below the data directory, so the shortest escape "../../../x" has 10); ProcessIndexRequestPle with one event; for every index name handed on to the segment store, the segment directory, segment key, suffix file and index directory built from it (config.GetBaseSegDir, GetSegKey, GetSuffixFile, GetBaseVTableDir) are checked against the data directory /d/
//verif:outside what AddAndGetRealIndexName does for kibana indexes, the mapping/alias/template files of the virtual-table package (same name, same check applies there), metric names and tenant ids
//verif:assume the segment store is a capturing stub; data path /d/, host id h

import (
	"path/filepath"
	"strings"

	"github.com/siglens/siglens/pkg/config"
	sutils "github.com/siglens/siglens/pkg/segment/utils"
	"github.com/siglens/siglens/pkg/segment/writer"
	zz "github.com/siglens/siglens/pkg/zzverif"
)

var verifC19Stored []string

func verifC19RealIndexName(indexNameIn string, localIndexMap map[string]string, myid int64) string {
	return indexNameIn
}
func verifC19StreamId(indexName string, orgId int64) string { return "s" }
func verifC19TsKey() string                                  { return "timestamp" }
func verifC19DataPath() string                               { return "/d/" }
func verifC19HostID() string                                 { return "h" }
func verifC19Capture(streamid string, indexName string, flush bool, signalType sutils.SIGNAL_TYPE, orgid int64, rid uint64,
	cnameCacheByteHashToStr map[uint64]string, jsParsingStackbuf []byte, pleArray []*writer.ParsedLogEvent) error {
	verifC19Stored = append(verifC19Stored, indexName)
	return nil
}

func VerifC19IndexNameStaysInsideDataDir() {
	verifC19Stored = nil
	n := zz.Choice("len", 11)
	b := zz.Bytes("indexName", n)
	for _, c := range b {
		zz.Assume(c >= 0x20 && c < 0x7f)
	}
	name := string(b)
	ple := writer.NewPLE()
	ple.SetIndexName(name)
	ple.SetRawJson([]byte(`{"msg":"x"}`))
	var buf [64]byte
	_ = ProcessIndexRequestPle(1700000000000, name, false, map[string]string{}, 0, 0, map[string]string{}, map[uint64]string{}, buf[:], []*writer.ParsedLogEvent{ple})
	inside := func(p string) bool {
		c := filepath.Clean(p)
		return c == "/d" || strings.HasPrefix(c, "/d/")
	}
	for _, idx := range verifC19Stored {
		zz.Assert(inside(config.GetBaseSegDir("s", idx, 0)), "indexname/segment-directory-stays-under-the-data-directory")
		zz.Assert(inside(config.GetSegKey("s", idx, 0)), "indexname/segment-files-stay-under-the-data-directory")
		zz.Assert(inside(config.GetSuffixFile(idx, "s")), "indexname/suffix-file-stays-under-the-data-directory")
		zz.Assert(inside(config.GetBaseVTableDir("s", idx)), "indexname/index-directory-stays-under-the-data-directory")
	}
}
