//go:build verif

package lookups

// C19: a client-controlled lookup file name can never make the server touch a
// file outside its data directory.
//
//verif:pkg pkg/lookups
//verif:entry VerifC19LookupGetDelete conf=0 replay=no
//verif:entry VerifC19LookupUpload conf=0 replay=no
//verif:stub-always github.com/siglens/siglens/pkg/config.GetLookupPath verifC19LookupPath
//verif:stub-always (*github.com/valyala/fasthttp.RequestCtx).FormValue verifC19FormValue
//verif:stub-always (*github.com/valyala/fasthttp.RequestCtx).FormFile verifC19FormFile
//verif:stub-always (*github.com/valyala/fasthttp.RequestCtx).UserValue verifC19UserValue
//verif:stub-always (*github.com/valyala/fasthttp.RequestCtx).Error verifC19CtxError
//verif:stub-always (*github.com/valyala/fasthttp.RequestCtx).SetStatusCode verifC19SetStatus
//verif:stub-always (*github.com/valyala/fasthttp.RequestCtx).SetContentType verifC19SetContentType
//verif:stub-always (*github.com/valyala/fasthttp.RequestCtx).Write verifC19Write
//verif:stub-always (*github.com/valyala/fasthttp.ResponseHeader).Set verifC19HeaderSet
//verif:stub-always github.com/siglens/siglens/pkg/utils.SendInternalError verifC19SendInternalError
//verif:stub-always github.com/siglens/siglens/pkg/utils.WriteJsonResponse verifC19WriteJson
//verif:stub-always os.Open verifC19Open
//verif:stub-always os.Remove verifC19Remove
//verif:stub-always os.Stat verifC19Stat
//verif:stub-always os.Create verifC19Create
//verif:stub-always os.OpenFile verifC19OpenFile
//verif:stub-always os.MkdirAll verifC19MkdirAll
//verif:bound GetLookupFile / DeleteLookupFile / UploadLookupFile with a client-supplied name of 0..7 free bytes of printable ASCII; data directory /d/, lookup directory /d/lookups/
//verif:outside URL decoding and routing in fasthttp (whether an encoded '/' reaches the handler), symlinks, names longer than 7 bytes (the shortest escape "../../x" has 7), the other path builders (dashboards, saved queries, scroll ids, index and metric names)
//verif:assume the os functions are a path monitor: every path handed to os.Open/Remove/Stat/Create/OpenFile/MkdirAll is recorded and the call fails; fasthttp request accessors are stubs returning the client-controlled name

import (
	"errors"
	"io/fs"
	"mime/multipart"
	"os"
	"path/filepath"
	"strings"

	"github.com/valyala/fasthttp"
	zz "github.com/siglens/siglens/pkg/zzverif"
)

var verifC19Name string
var verifC19Paths []string
var verifC19Rejected bool

func verifC19LookupPath() string { return "/d/lookups/" }

func verifC19FormValue(ctx *fasthttp.RequestCtx, key string) []byte {
	if key == "name" {
		return []byte(verifC19Name)
	}
	return []byte("true")
}
func verifC19FormFile(ctx *fasthttp.RequestCtx, key string) (*multipart.FileHeader, error) {
	return &multipart.FileHeader{Filename: "upload.csv"}, nil
}
func verifC19UserValue(ctx *fasthttp.RequestCtx, key any) any { return verifC19Name }
func verifC19CtxError(ctx *fasthttp.RequestCtx, msg string, statusCode int) {
	if statusCode == fasthttp.StatusBadRequest {
		verifC19Rejected = true
	}
}
func verifC19SetStatus(ctx *fasthttp.RequestCtx, statusCode int)       {}
func verifC19SetContentType(ctx *fasthttp.RequestCtx, ct string)      {}
func verifC19Write(ctx *fasthttp.RequestCtx, p []byte) (int, error)   { return len(p), nil }
func verifC19HeaderSet(h *fasthttp.ResponseHeader, key, value string) {}
func verifC19SendInternalError(ctx *fasthttp.RequestCtx, a string, b string, err error) {}
func verifC19WriteJson(ctx *fasthttp.RequestCtx, v interface{})        {}

var verifC19Err = errors.New("verif: path monitor")

func verifC19Open(name string) (*os.File, error) {
	verifC19Paths = append(verifC19Paths, name)
	return nil, verifC19Err
}
func verifC19Remove(name string) error {
	verifC19Paths = append(verifC19Paths, name)
	return verifC19Err
}
func verifC19Stat(name string) (fs.FileInfo, error) {
	verifC19Paths = append(verifC19Paths, name)
	return nil, verifC19Err
}
func verifC19Create(name string) (*os.File, error) {
	verifC19Paths = append(verifC19Paths, name)
	return nil, verifC19Err
}
func verifC19OpenFile(name string, flag int, perm os.FileMode) (*os.File, error) {
	verifC19Paths = append(verifC19Paths, name)
	return nil, verifC19Err
}
func verifC19MkdirAll(path string, perm os.FileMode) error {
	verifC19Paths = append(verifC19Paths, path)
	return nil
}

func verifC19ClientName() string {
	n := zz.Choice("len", 8)
	b := zz.Bytes("name", n)
	for _, c := range b {
		zz.Assume(c >= 0x20 && c < 0x7f)
	}
	return string(b)
}

func verifC19Confined(label string) {
	for _, p := range verifC19Paths {
		c := filepath.Clean(p)
		zz.Assert(c == "/d" || strings.HasPrefix(c, "/d/"), label)
	}
}

func VerifC19LookupGetDelete() {
	verifC19Paths, verifC19Rejected = nil, false
	verifC19Name = verifC19ClientName()
	ctx := &fasthttp.RequestCtx{}
	if zz.Choice("handler", 2) == 0 {
		GetLookupFile(ctx)
		verifC19Confined("lookup/get/file-access-stays-under-the-data-directory")
	} else {
		DeleteLookupFile(ctx)
		verifC19Confined("lookup/delete/file-access-stays-under-the-data-directory")
	}
}

func VerifC19LookupUpload() {
	verifC19Paths, verifC19Rejected = nil, false
	verifC19Name = verifC19ClientName()
	UploadLookupFile(&fasthttp.RequestCtx{})
	verifC19Confined("lookup/upload/file-access-stays-under-the-data-directory")
}
