//go:build verif

package writer

// C19 (delete-index request): the index name of a delete request comes from the client. Only
// a registered index of the requesting tenant is ever handed to the code that removes segment
// files, stream directories and metadata - an unregistered name (for which no validation ever
// ran, e.g. "../../x") reaches none of it.
//
//verif:pkg pkg/es/writer
//verif:entry VerifC19DeleteIndexOnlyTouchesRegisteredIndexes conf=0 replay=no
//verif:stub-always github.com/siglens/siglens/pkg/virtualtable.ExpandAndReturnIndexNames verifC19dExpand
//verif:stub-always github.com/siglens/siglens/pkg/virtualtable.IsVirtualTablePresent verifC19dPresent
//verif:stub-always github.com/siglens/siglens/pkg/virtualtable.IsAlias verifC19dIsAlias
//verif:stub-always github.com/siglens/siglens/pkg/virtualtable.DeleteVirtualTable verifC19dDeleteVT
//verif:stub-always github.com/siglens/siglens/pkg/segment/writer.DeleteSegmentsForIndex verifC19dDeleteSegs
//verif:stub-always github.com/siglens/siglens/pkg/segment/writer.DeleteVirtualTableSegStore verifC19dDeleteStore
//verif:stub-always github.com/siglens/siglens/pkg/segment/metadata.DeleteVirtualTable verifC19dDeleteMeta
//verif:bound a delete request naming 0..10 free printable-ASCII bytes; the tenant has one registered index, "good"; deleteIndex
//verif:outside wildcard / alias expansion of the name (VerifC13IndexExpressionExpansion: an expression only expands to registered names), what the removal functions do with a registered name (C13), URL decoding of the route parameter
//verif:assume ExpandAndReturnIndexNames returns a non-wildcard name as it is; registered names were validated when they were created (fix 8a57468); the removal functions are capturing stubs

import (
	"github.com/valyala/fasthttp"

	zz "github.com/siglens/siglens/pkg/zzverif"
)

var verifC19dTouched []string

func verifC19dExpand(indexNameIn string, orgid int64, isElastic bool, ctx *fasthttp.RequestCtx) []string {
	return []string{indexNameIn}
}
func verifC19dPresent(tname *string, orgid int64) bool                { return *tname == "good" }
func verifC19dIsAlias(nameToCheck string, orgid int64) (bool, string) { return false, "" }
func verifC19dDeleteVT(tname *string, orgid int64) error {
	verifC19dTouched = append(verifC19dTouched, *tname)
	return nil
}
func verifC19dDeleteSegs(indexName string, orgid int64) {
	verifC19dTouched = append(verifC19dTouched, indexName)
}
func verifC19dDeleteStore(indexName string, orgid int64) {
	verifC19dTouched = append(verifC19dTouched, indexName)
}
func verifC19dDeleteMeta(vTable string, orgid int64) {
	verifC19dTouched = append(verifC19dTouched, vTable)
}

func VerifC19DeleteIndexOnlyTouchesRegisteredIndexes() {
	verifC19dTouched = nil
	n := zz.Choice("len", 11)
	b := zz.Bytes("indexName", n)
	for _, c := range b {
		zz.Assume(c >= 0x20 && c < 0x7f)
	}
	name := string(b)
	_, notFound := deleteIndex(name, 0, &fasthttp.RequestCtx{})
	if name == "good" {
		zz.Assert(notFound == 0 && len(verifC19dTouched) == 4, "deleteindex/registered-index-is-removed-everywhere")
	} else {
		zz.Assert(notFound == 1, "deleteindex/unregistered-name-is-reported-as-not-found")
	}
	for _, t := range verifC19dTouched {
		zz.Assert(t == "good", "deleteindex/only-a-registered-index-reaches-the-removal-code")
	}
}
