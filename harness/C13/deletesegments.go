//go:build verif

package writer

// C13 (deleting an index, on disk): deleting index T of tenant X removes X's rotated segments
// of T - their segmeta entries and their directories - and nothing else: other indexes, and
// the same-named index of another tenant, keep entry and directory.
//
//verif:pkg pkg/segment/writer
//verif:entry VerifC13DeleteSegmentsOfOneTenantsIndex conf=0 replay=no
//verif:stub-always encoding/json.Marshal verifC13dMarshal
//verif:stub-always encoding/json.Unmarshal verifC13dUnmarshal
//verif:stub-always github.com/siglens/siglens/pkg/common/fileutils.RecursivelyDeleteEmptyParentDirectories verifC13dNoParentCleanup
//verif:bound a segmeta file of 1..3 rotated segments, each in index a or b of tenant 0 or 1; DeleteSegmentsForIndex for a free index and tenant over the file model
//verif:outside open (unrotated) segment stores and their stream directories (DeleteVirtualTableSegStore), removal of emptied parent directories, the in-memory table (VerifC13DeleteIndexTouchesNothingElse), a crash mid-way
//verif:assume json.Marshal/Unmarshal are contract stubs over one segmeta entry (key, index, tenant, directory round trip)

import (
	"errors"
	"os"

	"github.com/siglens/siglens/pkg/segment/structs"
	zz "github.com/siglens/siglens/pkg/zzverif"
)

func verifC13dDir(i int) string { return zz.Name("/d/final/x/", i) + "/" }

func verifC13dMarshal(v any) ([]byte, error) {
	m, ok := v.(structs.SegMeta)
	if !ok || len(m.SegbaseDir) < 12 {
		return nil, errors.New("verif: unexpected json.Marshal argument")
	}
	return []byte{'{', m.SegbaseDir[11], m.VirtualTableName[0], byte('0' + m.OrgId), '}'}, nil
}

func verifC13dUnmarshal(data []byte, v any) error {
	m, ok := v.(*structs.SegMeta)
	if !ok {
		return errors.New("verif: unexpected json.Unmarshal target")
	}
	if len(data) != 5 || data[0] != '{' || data[4] != '}' {
		return errors.New("unexpected end of JSON input")
	}
	i := int(data[1] - '0')
	m.SegbaseDir = verifC13dDir(i)
	m.SegmentKey = verifC13dDir(i) + string([]byte{data[1]})
	m.VirtualTableName = string([]byte{data[2]})
	m.OrgId = int64(data[3] - '0')
	return nil
}

func verifC13dNoParentCleanup(filePath string) {}

func VerifC13DeleteSegmentsOfOneTenantsIndex() {
	localSegmetaFname = "/d/segmeta.json"
	n := 1 + zz.Choice("segments", 3)
	tbl := make([]int, n)
	org := make([]int, n)
	var content []byte
	for i := 0; i < n; i++ {
		tbl[i] = zz.Choice(zz.Name("table", i), 2)
		org[i] = zz.Choice(zz.Name("tenant", i), 2)
		zz.Assume(os.MkdirAll(verifC13dDir(i), 0755) == nil)
		zz.Assume(os.WriteFile(verifC13dDir(i)+"c.csg", []byte{1}, 0644) == nil)
		content = append(content, '{', byte('0'+i), byte('a'+tbl[i]), byte('0'+org[i]), '}', '\n')
	}
	zz.Assume(os.WriteFile(localSegmetaFname, content, 0644) == nil)
	dt, do := zz.Choice("deleteTable", 2), zz.Choice("deleteTenant", 2)

	DeleteSegmentsForIndex(string([]byte{byte('a' + dt)}), int64(do))

	var want []byte
	for i := 0; i < n; i++ {
		_, err := os.Stat(verifC13dDir(i) + "c.csg")
		if tbl[i] == dt && org[i] == do {
			zz.Assert(err != nil, "deletesegments/segments-of-the-deleted-index-are-removed")
		} else {
			want = append(want, '{', byte('0'+i), byte('a'+tbl[i]), byte('0'+org[i]), '}', '\n')
			zz.Assert(err == nil, "deletesegments/other-indexes-and-other-tenants-keep-their-files")
		}
	}
	got, err := os.ReadFile(localSegmetaFname)
	if len(want) == 0 {
		zz.Assert(err != nil || len(got) == 0, "deletesegments/segmeta-lists-exactly-the-remaining-segments")
		return
	}
	zz.Assert(err == nil && string(got) == string(want), "deletesegments/segmeta-lists-exactly-the-remaining-segments")
}
