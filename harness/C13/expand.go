//go:build verif

package virtualtable

// C13-H2: an index expression expands only to indexes of the requesting
// organisation that the expression names: literally, through '*' wildcards
// (no other character is special), or through an alias.
//
//verif:pkg pkg/virtualtable
//verif:entry VerifC13IndexExpressionExpansion conf=0 replay=no
//verif:stub-always github.com/siglens/siglens/pkg/virtualtable.GetVirtualTableNames verifC13TableNames
//verif:bound the requesting organisation owns two indexes and another organisation owns one, each name 1..3 free bytes over {a, b, x, '.', '-'}; one alias of the requester pointing at its first index; the concrete expressions "*", "a*", "*b", "a.b*", "a-*,b*" and "other:a*"; Go's regexp package is interpreted from its source
//verif:outside index deletion, alias persistence, the authorisation hook (nil), metrics tenancy
//verif:assume GetVirtualTableNames(org) (reads the per-organisation table file) is stubbed to return the harness's table list for that organisation

import (
	zz "github.com/siglens/siglens/pkg/zzverif"
)

var verifC13Tables map[int64]map[string]bool

func verifC13TableNames(orgid int64) (map[string]bool, error) {
	out := map[string]bool{}
	for k, v := range verifC13Tables[orgid] {
		out[k] = v
	}
	return out, nil
}

func verifC13Name(name string) string {
	n := 1 + zz.Choice(name+".len", 3)
	b := make([]byte, n)
	for i := range b {
		b[i] = zz.ByteIn(zz.Name(name+"#", i), "abx.-")
	}
	return string(b)
}

// verifC13Glob: does s match pattern p where only '*' is special?
func verifC13Glob(p, s string) bool {
	if p == "" {
		return s == ""
	}
	if p[0] == '*' {
		for k := 0; k <= len(s); k++ {
			if verifC13Glob(p[1:], s[k:]) {
				return true
			}
		}
		return false
	}
	return s != "" && s[0] == p[0] && verifC13Glob(p[1:], s[1:])
}

func VerifC13IndexExpressionExpansion() {
	mine1, mine2, theirs := verifC13Name("mine1"), verifC13Name("mine2"), verifC13Name("theirs")
	zz.Assume(mine1 != mine2 && theirs != mine1 && theirs != mine2)
	verifC13Tables = map[int64]map[string]bool{0: {mine1: true, mine2: true}, 1: {theirs: true}}
	aliasToIndexNames = map[int64]map[string]map[string]bool{0: {"al": {mine1: true}}}
	exprs := []string{"*", "a*", "*b", "a.b*", "a-*,b*", "other:a*"}
	expr := exprs[zz.Choice("expression", len(exprs))]
	got := ExpandAndReturnIndexNames(expr, 0, false, nil)
	// the patterns the expression consists of (after dropping a remote-cluster prefix)
	parts := map[string][]string{"*": {"*"}, "a*": {"a*"}, "*b": {"*b"}, "a.b*": {"a.b*"}, "a-*,b*": {"a-*", "b*"}, "other:a*": {"a*"}}[expr]
	matches := func(s string) bool {
		for _, p := range parts {
			if verifC13Glob(p, s) || (verifC13Glob(p, "al") && s == mine1) {
				return true
			}
		}
		return false
	}
	anyMatch := matches(mine1) || matches(mine2)
	for _, g := range got {
		zz.Assert(g != theirs, "expand/never-an-index-of-another-organisation")
		if anyMatch {
			zz.Assert(g == mine1 || g == mine2, "expand/only-the-requesters-indexes")
			if expr == "a.b*" {
				zz.Assert(matches(g), "expand/dot-is-not-a-wildcard/only-indexes-the-expression-names")
			} else {
				zz.Assert(matches(g), "expand/only-indexes-the-expression-names")
			}
		}
	}
	for _, s := range []string{mine1, mine2} {
		if matches(s) {
			found := false
			for _, g := range got {
				if g == s {
					found = true
				}
			}
			zz.Assert(found, "expand/every-named-index-of-the-requester-is-returned")
		}
	}
}
