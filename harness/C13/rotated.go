//go:build verif

package metadata

// C13: a search sees only the segments of the indexes it names, of the requesting
// organisation, that overlap the query time range.
//
//verif:pkg pkg/segment/metadata
//verif:entry VerifC13RotatedSegmentSelection conf=0 replay=no
//verif:stub-always (*github.com/siglens/siglens/pkg/segment/metadata.SegmentMicroIndex).getAllColumnsRecSize verifC13RecSizes
//verif:stub-always (*github.com/siglens/siglens/pkg/segment/metadata.SegmentMicroIndex).getRecordCount verifC13RecCount
//verif:bound FilterSegmentsByTime over 2 (quick) / 3 (thorough) rotated segments with free organisation id (0/1), free time ranges and a table each from {"a","ab","b"} (prefix-related names); request: free organisation, free time range, any subset of the three names
//verif:outside CreateStreamId (random shard + hash), index deletion (file system), metrics tenancy, alias persistence, wildcard expansion of index expressions (regexp over query-derived patterns)

import (
	"sync"

	dtu "github.com/siglens/siglens/pkg/common/dtypeutils"
	"github.com/siglens/siglens/pkg/segment/structs"
	zz "github.com/siglens/siglens/pkg/zzverif"
)

func verifC13RecSizes(smi *SegmentMicroIndex) map[string]uint32 { return nil }
func verifC13RecCount(smi *SegmentMicroIndex) uint32            { return 1 }

func VerifC13RotatedSegmentSelection() {
	names := []string{"a", "ab", "b"}
	globalMetadata = &allSegmentMetadata{
		segmentMetadataReverseIndex: map[string]*SegmentMicroIndex{},
		tableSortedMetadata:         map[string][]*SegmentMicroIndex{},
		updateLock:                  &sync.RWMutex{},
	}
	type seg struct {
		key, table string
		org        int64
		e, l       uint64
	}
	nsegs := 2
	if zz.Tier() > 0 {
		nsegs = 3
	}
	segs := make([]seg, nsegs)
	for i := range segs {
		s := &segs[i]
		s.key = zz.Name("seg", i)
		s.table = names[zz.Choice(zz.Name("table", i), 3)]
		s.org = int64(zz.IntRange(zz.Name("org", i), 0, 1))
		s.e, s.l = zz.U64(zz.Name("earliest", i)), zz.U64(zz.Name("latest", i))
		zz.Assume(s.e <= s.l)
		smi := &SegmentMicroIndex{smiLock: &sync.RWMutex{}}
		smi.SegmentKey, smi.VirtualTableName, smi.OrgId = s.key, s.table, s.org
		smi.EarliestEpochMS, smi.LatestEpochMS = s.e, s.l
		globalMetadata.tableSortedMetadata[s.table] = append(globalMetadata.tableSortedMetadata[s.table], smi)
		globalMetadata.segmentMetadataReverseIndex[s.key] = smi
	}
	org := int64(zz.IntRange("requestOrg", 0, 1))
	tr := &dtu.TimeRange{StartEpochMs: zz.U64("start"), EndEpochMs: zz.U64("end")}
	zz.Assume(tr.StartEpochMs <= tr.EndEpochMs)
	var req []string
	named := map[string]bool{}
	for i, n := range names {
		if zz.Choice(zz.Name("named", i), 2) == 1 {
			req = append(req, n)
			named[n] = true
		}
	}
	got, _, _ := FilterSegmentsByTime(tr, req, org)
	for _, s := range segs {
		want := named[s.table] && s.org == org && s.e <= tr.EndEpochMs && tr.StartEpochMs <= s.l
		found := 0
		var under string
		for tbl, m := range got {
			if _, ok := m[s.key]; ok {
				found++
				under = tbl
			}
		}
		zz.Assert((found == 1) == want && found <= 1, "tenancy/rotated/selected-iff-named-and-same-org-and-overlapping")
		if found == 1 {
			zz.Assert(under == s.table, "tenancy/rotated/returned-under-its-own-index")
		}
	}
	var _ *structs.SegMeta
}
