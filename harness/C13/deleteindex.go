//go:build verif

package metadata

// C13 (deleting an index): deleting index T of tenant X removes X's segments of T from the
// in-memory segment table and nothing else: other indexes of X and the same-named index of
// another tenant stay listed exactly once.
//
//verif:pkg pkg/segment/metadata
//verif:entry VerifC13DeleteIndexTouchesNothingElse conf=0 replay=no
//verif:stub-always (*github.com/siglens/siglens/pkg/segment/metadata.SegmentMicroIndex).initMetadataSize verifC13NoSize
//verif:bound 2..3 (quick) / 2..4 (thorough) rotated segments, each in index a or b of tenant 0 or 1 with a free 8-bit newest-event time; DeleteVirtualTable(index, tenant) for a free index and tenant; then every list of the in-memory table is compared with the segments that should remain
//verif:outside files on disk and segmeta.json (removeSegmetas), open segment stores, metrics indexes

import (
	"github.com/siglens/siglens/pkg/segment/structs"
	zz "github.com/siglens/siglens/pkg/zzverif"
)

func verifC13NoSize(sm *SegmentMicroIndex) {}

func VerifC13DeleteIndexTouchesNothingElse() {
	maxN := 3
	if zz.Tier() > 0 {
		maxN = 4
	}
	n := 2 + zz.Choice("segments", maxN-1)
	globalMetadata = &allSegmentMetadata{
		allSegmentMicroIndex:        make([]*SegmentMicroIndex, 0),
		segmentMetadataReverseIndex: make(map[string]*SegmentMicroIndex),
		tableSortedMetadata:         make(map[string][]*SegmentMicroIndex),
		updateLock:                  globalMetadata.updateLock,
	}
	tables := []string{"a", "b"}
	keys := make([]string, n)
	tbl := make([]int, n)
	org := make([]int, n)
	all := make([]*SegmentMicroIndex, n)
	for i := 0; i < n; i++ {
		keys[i] = zz.Name("/d/seg", i)
		tbl[i] = zz.Choice(zz.Name("table", i), 2)
		org[i] = zz.Choice(zz.Name("tenant", i), 2)
		all[i] = InitSegmentMicroIndex(&structs.SegMeta{SegmentKey: keys[i], VirtualTableName: tables[tbl[i]], OrgId: int64(org[i]),
			LatestEpochMS: uint64(zz.U8(zz.Name("latest", i)))}, false)
	}
	BulkAddSegmentMicroIndex(all)
	dt, do := zz.Choice("deleteTable", 2), zz.Choice("deleteTenant", 2)
	DeleteVirtualTable(tables[dt], int64(do))
	for i := 0; i < n; i++ {
		inAll, inTable := 0, 0
		for _, smi := range globalMetadata.allSegmentMicroIndex {
			if smi.SegmentKey == keys[i] {
				inAll++
			}
		}
		for t, list := range globalMetadata.tableSortedMetadata {
			for _, smi := range list {
				if smi.SegmentKey == keys[i] {
					inTable++
					zz.Assert(t == tables[tbl[i]], "deleteindex/listed-under-its-own-index")
				}
			}
		}
		_, inRev := globalMetadata.segmentMetadataReverseIndex[keys[i]]
		if tbl[i] == dt && org[i] == do {
			zz.Assert(inAll == 0 && inTable == 0 && !inRev, "deleteindex/segments-of-the-deleted-index-are-gone")
		} else {
			zz.Assert(inAll == 1 && inTable == 1 && inRev, "deleteindex/other-indexes-and-other-tenants-stay-listed")
		}
	}
}
