//go:build verif

package writer

// C13 (deleting an index, open segments): deleting index T of one tenant drops that tenant's
// open segment stores and stream directories of T - those of another tenant's index of the
// same name stay, whatever the tenants' ids look like (1 and 12 share a decimal prefix).
//
//verif:pkg pkg/segment/writer
//verif:entry VerifC13DeleteIndexKeepsOtherTenantsStreamDirs conf=0 replay=no
//verif:stub-always github.com/siglens/siglens/pkg/segment/writer.getActiveBaseDirVTable verifC13sdBase
//verif:bound the index directory holds any subset of six stream directories <shard>-<tenant>-<hash> for tenants 1 and 12 (shards 0 and 1), 2 and 121 (shard 0), each holding one file; an open segment store per tenant, present or not; DeleteVirtualTableSegStore for a free tenant out of {1, 12, 2}
//verif:outside rotated segments (VerifC13DeleteSegmentsOfOneTenantsIndex), the in-memory table (VerifC13DeleteIndexTouchesNothingElse), negative tenant ids, a crash mid-way
//verif:assume getActiveBaseDirVTable returns the harness's index directory

import (
	"os"

	zz "github.com/siglens/siglens/pkg/zzverif"
)

func verifC13sdBase(virtualTableName string) string { return "/d/h/final/" + virtualTableName + "/" }

func VerifC13DeleteIndexKeepsOtherTenantsStreamDirs() {
	base := "/d/h/final/ind/"
	names := []string{"0-1-77", "1-1-77", "0-12-77", "1-12-77", "0-2-77", "0-121-77"}
	owner := []int64{1, 1, 12, 12, 2, 121}
	present := make([]bool, len(names))
	zz.Assume(os.MkdirAll(base, 0755) == nil)
	for i, nm := range names {
		present[i] = zz.Choice(zz.Name("dirPresent", i), 2) == 1
		if present[i] {
			zz.Assume(os.MkdirAll(base+nm+"/0", 0755) == nil)
			zz.Assume(os.WriteFile(base+nm+"/0/0.bsu", []byte{1}, 0644) == nil)
		}
	}
	tenants := []int64{1, 12, 2}
	allSegStores = map[string]*SegStore{}
	hasStore := make([]bool, len(tenants))
	for k, t := range tenants {
		hasStore[k] = zz.Choice(zz.Name("openStore", k), 2) == 1
		if hasStore[k] {
			allSegStores[zz.Name("stream", k)] = &SegStore{VirtualTableName: "ind", OrgId: t}
		}
	}
	allSegStores["other"] = &SegStore{VirtualTableName: "other", OrgId: 1}
	who := tenants[zz.Choice("deletingTenant", len(tenants))]

	DeleteVirtualTableSegStore("ind", who)

	for i, nm := range names {
		_, err := os.Stat(base + nm + "/0/0.bsu")
		if owner[i] == who {
			zz.Assert(err != nil, "streamdirs/the-deleting-tenant's-stream-directories-are-gone")
		} else if present[i] {
			zz.Assert(err == nil, "streamdirs/another-tenant's-stream-directory-stays")
		}
	}
	for k, t := range tenants {
		_, ok := allSegStores[zz.Name("stream", k)]
		if t == who {
			zz.Assert(!ok, "streamdirs/the-deleting-tenant's-open-store-is-dropped")
		} else {
			zz.Assert(ok == hasStore[k], "streamdirs/another-tenant's-open-store-stays")
		}
	}
	_, ok := allSegStores["other"]
	zz.Assert(ok, "streamdirs/another-index's-open-store-stays")
}
