//go:build verif

package writer

// C13 (open segments): the unrotated-segment filter applies the same rule.
//
//verif:pkg pkg/segment/writer
//verif:entry VerifC13UnrotatedSegmentSelection conf=0 replay=no
//verif:bound FilterUnrotatedSegmentsInQuery over 2 (quick) / 3 (thorough) open segments with free organisation id (0/1), free time ranges and a table each from {"a","ab","b"}; request: free organisation, free time range, any subset of the names

import (
	dtu "github.com/siglens/siglens/pkg/common/dtypeutils"
	zz "github.com/siglens/siglens/pkg/zzverif"
)

func VerifC13UnrotatedSegmentSelection() {
	names := []string{"a", "ab", "b"}
	AllUnrotatedSegmentInfo = map[string]*UnrotatedSegmentInfo{}
	type seg struct {
		key, table string
		org        int64
		e, l       uint64
	}
	nsegs := 2
	if zz.Tier() > 0 {
		nsegs = 3
	}
	segs := make([]seg, nsegs)
	for i := range segs {
		s := &segs[i]
		s.key = zz.Name("seg", i)
		s.table = names[zz.Choice(zz.Name("table", i), 3)]
		s.org = int64(zz.IntRange(zz.Name("org", i), 0, 1))
		s.e, s.l = zz.U64(zz.Name("earliest", i)), zz.U64(zz.Name("latest", i))
		zz.Assume(s.e <= s.l)
		AllUnrotatedSegmentInfo[s.key] = &UnrotatedSegmentInfo{TableName: s.table, orgid: s.org,
			tsRange: &dtu.TimeRange{StartEpochMs: s.e, EndEpochMs: s.l}, RecordCount: 1}
	}
	org := int64(zz.IntRange("requestOrg", 0, 1))
	tr := &dtu.TimeRange{StartEpochMs: zz.U64("start"), EndEpochMs: zz.U64("end")}
	zz.Assume(tr.StartEpochMs <= tr.EndEpochMs)
	var req []string
	named := map[string]bool{}
	for i, n := range names {
		if zz.Choice(zz.Name("named", i), 2) == 1 {
			req = append(req, n)
			named[n] = true
		}
	}
	got, _, _ := FilterUnrotatedSegmentsInQuery(tr, req, org)
	for _, s := range segs {
		want := named[s.table] && s.org == org && s.e <= tr.EndEpochMs && tr.StartEpochMs <= s.l
		found := 0
		var under string
		for tbl, m := range got {
			if _, ok := m[s.key]; ok {
				found++
				under = tbl
			}
		}
		zz.Assert((found == 1) == want && found <= 1, "tenancy/unrotated/selected-iff-named-and-same-org-and-overlapping")
		if found == 1 {
			zz.Assert(under == s.table, "tenancy/unrotated/returned-under-its-own-index")
		}
	}
}
