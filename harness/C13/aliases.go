//go:build verif

package virtualtable

// C13 (aliases): a search through an alias reaches exactly the indexes the requesting tenant
// last attached to that alias - not an index it was detached from, and not another tenant's.
//
//verif:pkg pkg/virtualtable
//verif:entry VerifC13AliasResolution conf=0 replay=no
//verif:stub-always encoding/json.Marshal verifC13aMarshal
//verif:stub-always encoding/json.Unmarshal verifC13aUnmarshal
//verif:bound histories of 2 (quick) / 3 (thorough) operations, each AddAliases or RemoveAliases of one alias in {p, q} on one index in {i, j} for one tenant in {0, 1}; afterwards the in-memory alias table and the per-index alias files are compared with the last written state, directly or after a restart (the in-memory table rebuilt by initializeAliasToIndexMap from the files)
//verif:outside dashboards, folders, saved queries, lookup files, alerts and contact points (reflection-driven JSON / sqlite, not encodable); concurrent requests; crashes between the file write and the in-memory update
//verif:assume json.Marshal/Unmarshal are contract stubs over a set of one-letter alias names; the alias directories of both tenants exist

import (
	"errors"
	"os"

	zz "github.com/siglens/siglens/pkg/zzverif"
)

func verifC13aMarshal(v any) ([]byte, error) {
	m, ok := v.(*map[string]bool)
	if !ok {
		return nil, errors.New("verif: unexpected json.Marshal argument")
	}
	out := []byte{'{'}
	for _, k := range []string{"p", "q"} {
		if (*m)[k] {
			out = append(out, k[0])
		}
	}
	return append(out, '}'), nil
}

func verifC13aUnmarshal(data []byte, v any) error {
	m, ok := v.(*map[string]bool)
	if !ok {
		return errors.New("verif: unexpected json.Unmarshal target")
	}
	if len(data) < 2 || data[0] != '{' || data[len(data)-1] != '}' {
		return errors.New("unexpected end of JSON input")
	}
	for _, c := range data[1 : len(data)-1] {
		(*m)[string([]byte{c})] = true
	}
	return nil
}

func VerifC13AliasResolution() {
	VTableAliasesDir = "/d/aliases/"
	zz.Assume(os.MkdirAll("/d/aliases/1", 0755) == nil)
	aliasToIndexNames = make(map[int64]map[string]map[string]bool)
	steps := 2
	if zz.Tier() > 0 {
		steps = 3
	}
	indexes, aliases := []string{"i", "j"}, []string{"p", "q"}
	var model [2][2][2]bool // tenant, alias, index
	for s := 0; s < steps; s++ {
		org := zz.Choice(zz.Name("tenant", s), 2)
		a := zz.Choice(zz.Name("alias", s), 2)
		x := zz.Choice(zz.Name("index", s), 2)
		if zz.Choice(zz.Name("add", s), 2) == 1 {
			zz.Assert(AddAliases(indexes[x], []string{aliases[a]}, int64(org)) == nil, "aliases/add-no-error")
			model[org][a][x] = true
		} else {
			err := RemoveAliases(indexes[x], []string{aliases[a]}, int64(org))
			// removing the only alias of an index that has no alias file reports the missing file; the state is unchanged
			_ = err
			model[org][a][x] = false
		}
	}
	restarted := zz.Choice("restart", 2) == 1
	if restarted {
		aliasToIndexNames = make(map[int64]map[string]map[string]bool)
		zz.Assert(initializeAliasToIndexMap() == nil, "aliases/restart-no-error")
	}
	for org := 0; org < 2; org++ {
		for x := 0; x < 2; x++ {
			onDisk, err := GetAliases(indexes[x], int64(org))
			zz.Assert(err == nil, "aliases/alias-file-readable")
			for a := 0; a < 2; a++ {
				zz.Assert(onDisk[aliases[a]] == model[org][a][x], "aliases/alias-file-holds-the-last-written-state")
				inMem := aliasToIndexNames[int64(org)][aliases[a]][indexes[x]]
				if restarted {
					zz.Assert(inMem == model[org][a][x], "aliases/after-restart-an-alias-resolves-to-the-last-written-indexes")
				} else {
					zz.Assert(inMem == model[org][a][x], "aliases/an-alias-resolves-to-the-last-written-indexes")
				}
			}
		}
	}
}
