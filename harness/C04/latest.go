//go:build verif

package segread

// C04-H3: latest(field) / earliest(field) / latest_time / earliest_time / range folded over
// the per-segment statistics of several segments equal the value at the newest / oldest
// timestamp (resp. max - min) over all of them, whatever the order the segments arrive in.
//
//verif:pkg pkg/segment/reader/segread
//verif:entry VerifC04LatestEarliestAcrossSegments conf=8
//verif:bound 2..3 segments folded in arrival order exactly as SearchResults.UpdateNonEvalSegStats does (first segment becomes the running statistics), each with free 16-bit latest/earliest timestamps (earliest <= latest), free int64 latest/earliest values, and free int64 min <= max with |v| <= 2^40; aggregators latest, earliest, latest_time, earliest_time, range
//verif:outside the per-record accumulation inside one segment, string-valued fields, the .sst file format, more than three segments (the fold is the same step repeated)

import (
	"github.com/siglens/siglens/pkg/segment/structs"
	sutils "github.com/siglens/siglens/pkg/segment/utils"
	zz "github.com/siglens/siglens/pkg/zzverif"
)

func VerifC04LatestEarliestAcrossSegments() {
	n := 2 + zz.Choice("segments", 2)
	lt, et := make([]uint64, n), make([]uint64, n)
	lv, ev := make([]int64, n), make([]int64, n)
	mn, mx := make([]int64, n), make([]int64, n)
	segs := make([]*structs.SegStats, n)
	for i := 0; i < n; i++ {
		lt[i], et[i] = uint64(zz.U16(zz.Name("latestTs", i))), uint64(zz.U16(zz.Name("earliestTs", i)))
		zz.Assume(et[i] <= lt[i])
		lv[i], ev[i] = zz.I64(zz.Name("latestVal", i)), zz.I64(zz.Name("earliestVal", i))
		mn[i], mx[i] = int64(zz.IntRange(zz.Name("min", i), -(1<<40), 1<<40)), int64(zz.IntRange(zz.Name("max", i), -(1<<40), 1<<40))
		zz.Assume(mn[i] <= mx[i])
		segs[i] = &structs.SegStats{IsNumeric: true, Count: 1,
			Min: sutils.CValueEnclosure{Dtype: sutils.SS_DT_SIGNED_NUM, CVal: mn[i]},
			Max: sutils.CValueEnclosure{Dtype: sutils.SS_DT_SIGNED_NUM, CVal: mx[i]},
			TimeStats: &structs.TimeStats{
				LatestTs:    sutils.CValueEnclosure{Dtype: sutils.SS_DT_UNSIGNED_NUM, CVal: lt[i]},
				EarliestTs:  sutils.CValueEnclosure{Dtype: sutils.SS_DT_UNSIGNED_NUM, CVal: et[i]},
				LatestVal:   sutils.CValueEnclosure{Dtype: sutils.SS_DT_SIGNED_NUM, CVal: lv[i]},
				EarliestVal: sutils.CValueEnclosure{Dtype: sutils.SS_DT_SIGNED_NUM, CVal: ev[i]},
			}}
	}
	agg := zz.Choice("agg", 5)
	var running *structs.SegStats
	var res *sutils.CValueEnclosure
	var err error
	for i := 0; i < n; i++ {
		switch agg {
		case 0:
			res, err = GetSegLatestOrEarliestVal(running, segs[i], true)
		case 1:
			res, err = GetSegLatestOrEarliestVal(running, segs[i], false)
		case 2:
			res, err = GetSegLatestOrEarliestTs(running, segs[i], true)
		case 3:
			res, err = GetSegLatestOrEarliestTs(running, segs[i], false)
		case 4:
			res, err = GetSegRange(running, segs[i])
		}
		zz.Assert(err == nil && res != nil, "latest/no-error")
		if err != nil || res == nil {
			return
		}
		if running == nil {
			running = segs[i]
		}
	}
	// specification over all segments
	maxLt, minEt := lt[0], et[0]
	lo, hi := mn[0], mx[0]
	for i := 1; i < n; i++ {
		if lt[i] > maxLt {
			maxLt = lt[i]
		}
		if et[i] < minEt {
			minEt = et[i]
		}
		if mn[i] < lo {
			lo = mn[i]
		}
		if mx[i] > hi {
			hi = mx[i]
		}
	}
	switch agg {
	case 0:
		got, ok := res.CVal.(int64)
		zz.Assert(ok, "latest/value-type")
		zz.Observe("latest", got)
		found := false
		for i := 0; i < n; i++ {
			if lt[i] == maxLt && lv[i] == got {
				found = true
			}
		}
		zz.Assert(found, "latest/is-the-value-at-the-newest-timestamp-of-all-segments")
	case 1:
		got, ok := res.CVal.(int64)
		zz.Assert(ok, "latest/value-type")
		zz.Observe("earliest", got)
		found := false
		for i := 0; i < n; i++ {
			if et[i] == minEt && ev[i] == got {
				found = true
			}
		}
		zz.Assert(found, "earliest/is-the-value-at-the-oldest-timestamp-of-all-segments")
	case 2:
		got, ok := res.CVal.(uint64)
		zz.Observe("latestTs", got)
		zz.Assert(ok && got == maxLt, "latest_time/is-the-newest-timestamp")
	case 3:
		got, ok := res.CVal.(uint64)
		zz.Observe("earliestTs", got)
		zz.Assert(ok && got == minEt, "earliest_time/is-the-oldest-timestamp")
	case 4:
		got, ok := res.CVal.(int64)
		zz.Observe("range", got)
		zz.Assert(ok && got == hi-lo, "range/is-max-minus-min-over-all-segments")
	}
}
