//go:build verif

package aggregations

// C04-H1: time buckets partition the query range; every timestamp is counted in
// exactly the grid bucket whose span contains it.
//
//verif:pkg pkg/segment/aggregations
//verif:entry VerifC04TimeBucket conf=8
//verif:bound FindTimeRangeBucket/GenerateTimeRangeBuckets: all 64-bit start<end, step>0, start<=ts<=end with end+step not wrapping; no loop
//verif:outside group-by bucket maps, sketches, result rendering
//verif:assume the query range is inclusive at both ends (dtypeutils.TimeRange.CheckInRange), so ts == end reaches the bucket function

import (
	"github.com/siglens/siglens/pkg/segment/structs"
	zz "github.com/siglens/siglens/pkg/zzverif"
)

func VerifC04TimeBucket() {
	start, end, step, ts := zz.U64("start"), zz.U64("end"), zz.U64("step"), zz.U64("ts")
	zz.Assume(start < end)
	zz.Assume(step > 0)
	zz.Assume(step <= 1<<40 && end <= 1<<62) // no wrap-around of end+step; epoch-millisecond magnitudes
	zz.Assume(start <= ts && ts <= end)
	r := GenerateTimeRangeBuckets(&structs.TimeBucket{StartTime: start, EndTime: end, IntervalMillis: step})
	b := FindTimeRangeBucket(r, ts)
	zz.Observe("bucket", b)
	if ts < end {
		zz.Assert(b >= start, "bucket-not-before-start")
		zz.Assert((b-start)%step == 0, "bucket-on-grid")
		zz.Assert(b <= ts, "bucket-starts-at-or-before-ts")
		zz.Assert(ts-b < step, "bucket-span-contains-ts")
	} else {
		// ts is the inclusive end of the range: it belongs to the last grid bucket
		zz.Assert(b >= start, "end/bucket-not-before-start")
		zz.Assert((b-start)%step == 0, "end/bucket-on-grid")
		zz.Assert(b <= ts, "end/bucket-starts-at-or-before-ts")
	}
}
