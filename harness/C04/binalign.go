//go:build verif

package processor

// C04 (time buckets with an align time): `bin span=10s aligntime=T` puts every event into
// the bucket of the T-aligned grid whose span contains its timestamp - also events before T.
//
//verif:pkg pkg/segment/query/processor
//verif:entry VerifC04BinAlignTimeBucketContainsItsEvent conf=8
//verif:bound span 10 s or 1 min, align time T = 1700000007000 ms, event time T + d for d in {-125001, -60000, -25001, -20000, -10001, -10000, -9999, -1, 0, 1, 9999, 10000, 12345, 60000, 61000} ms (concrete: the bucket is computed in floating point with a division and a floor); getTimeBucketWithAlign
//verif:outside free timestamps (float division by the span does not finish in the solvers), day/week/month/year spans (calendar arithmetic), bin without aligntime (time.Truncate)

import (
	"time"

	zz "github.com/siglens/siglens/pkg/zzverif"
)

func VerifC04BinAlignTimeBucketContainsItsEvent() {
	align := uint64(1700000007000)
	offs := []int64{-125001, -60000, -25001, -20000, -10001, -10000, -9999, -1, 0, 1, 9999, 10000, 12345, 60000, 61000}
	ts := int64(align) + offs[zz.Choice("offset", len(offs))]
	spanMs := int64(10000)
	scale, num := time.Second, 10.0
	if zz.Choice("minuteSpan", 2) == 1 {
		spanMs, scale, num = 60000, time.Minute, 1.0
	}
	bucket := int64(getTimeBucketWithAlign(time.UnixMilli(ts), scale, num, &align))
	zz.Observe("bucket", bucket)
	zz.Assert(bucket <= ts && ts < bucket+spanMs, "binalign/bucket-span-contains-the-event")
	d := bucket - int64(align)
	if d < 0 {
		d = -d
	}
	zz.Assert(d%spanMs == 0, "binalign/bucket-lies-on-the-aligned-grid")
}
