//go:build verif

package segread

// C04-H2: combining pre-aggregated per-segment statistics gives the aggregate
// of the union of the segments (count, sum, avg, min, max): the answer does not
// depend on how the events were split into segments.
//
//verif:pkg pkg/segment/reader/segread
//verif:entry VerifC04SegStatsMerge conf=6
//verif:bound two segments' statistics for one column: free total count and numeric count (numeric <= total <= 2^32), sum a free int64 (|s| <= 2^40) or an integer-valued float, min/max free int64 or float with min <= max; merged with GetSegCount/GetSegSum/GetSegAvg/GetSegMin/GetSegMax
//verif:outside group-by bucket maps, values/list, HLL and t-digest sketches, the .sst file format, result rendering

import (
	"math"

	"github.com/siglens/siglens/pkg/segment/structs"
	sutils "github.com/siglens/siglens/pkg/segment/utils"
	zz "github.com/siglens/siglens/pkg/zzverif"
)

type verifC04Seg struct {
	count, ncount uint64
	sumIsFloat    bool
	sumI          int64
	sumF          float64
	minIsFloat    bool
	minI, maxI    int64
	minF, maxF    float64
}

func verifC04MakeSeg(p string) (verifC04Seg, *structs.SegStats) {
	var s verifC04Seg
	s.count = zz.U64Range(p+".count", 1, 1<<32)
	s.ncount = zz.U64Range(p+".numericCount", 1, 1<<32)
	zz.Assume(s.ncount <= s.count)
	st := &structs.SegStats{IsNumeric: true, Count: s.count, NumStats: &structs.NumericStats{NumericCount: s.ncount}}
	s.sumIsFloat = zz.Choice(p+".sumIsFloat", 2) == 1
	v := int64(zz.IntRange(p+".sum", -(1 << 40), 1<<40))
	if s.sumIsFloat {
		s.sumF = float64(v)
		st.NumStats.Sum = sutils.NumTypeEnclosure{Ntype: sutils.SS_DT_FLOAT, FloatVal: s.sumF}
	} else {
		s.sumI = v
		st.NumStats.Sum = sutils.NumTypeEnclosure{Ntype: sutils.SS_DT_SIGNED_NUM, IntgrVal: s.sumI}
	}
	s.minIsFloat = zz.Choice(p+".minmaxIsFloat", 2) == 1
	lo, hi := int64(zz.IntRange(p+".min", -(1<<40), 1<<40)), int64(zz.IntRange(p+".max", -(1<<40), 1<<40))
	zz.Assume(lo <= hi)
	if s.minIsFloat {
		s.minF, s.maxF = float64(lo), float64(hi)
		st.Min = sutils.CValueEnclosure{Dtype: sutils.SS_DT_FLOAT, CVal: s.minF}
		st.Max = sutils.CValueEnclosure{Dtype: sutils.SS_DT_FLOAT, CVal: s.maxF}
	} else {
		s.minI, s.maxI = lo, hi
		s.minF, s.maxF = float64(lo), float64(hi)
		st.Min = sutils.CValueEnclosure{Dtype: sutils.SS_DT_SIGNED_NUM, CVal: lo}
		st.Max = sutils.CValueEnclosure{Dtype: sutils.SS_DT_SIGNED_NUM, CVal: hi}
	}
	return s, st
}

func verifC04AsFloat(e *sutils.CValueEnclosure) float64 {
	switch v := e.CVal.(type) {
	case float64:
		return v
	case int64:
		return float64(v)
	case uint64:
		return float64(v)
	}
	zz.Assert(false, "segstats/min-max-is-numeric")
	return 0
}

func verifC04Clone(st *structs.SegStats) *structs.SegStats {
	cp := *st
	ns := *st.NumStats
	cp.NumStats = &ns
	return &cp
}

func VerifC04SegStatsMerge() {
	a, sa := verifC04MakeSeg("a")
	b, sb := verifC04MakeSeg("b")
	switch zz.Choice("agg", 5) {
	case 0:
		r, err := GetSegCount(verifC04Clone(sa), sb)
		zz.Assert(err == nil && uint64(r.IntgrVal) == a.count+b.count, "segstats/count-is-the-sum-of-counts")
	case 1:
		r, err := GetSegSum(verifC04Clone(sa), sb)
		zz.Assert(err == nil, "segstats/sum-no-error")
		if !a.sumIsFloat && !b.sumIsFloat {
			zz.Assert(r.Ntype == sutils.SS_DT_SIGNED_NUM && r.IntgrVal == a.sumI+b.sumI, "segstats/integer-sums-add-exactly")
		} else {
			fa, fb := a.sumF, b.sumF
			if !a.sumIsFloat {
				fa = float64(a.sumI)
			}
			if !b.sumIsFloat {
				fb = float64(b.sumI)
			}
			zz.Assert(r.Ntype == sutils.SS_DT_FLOAT && math.Float64bits(r.FloatVal) == math.Float64bits(fa+fb), "segstats/float-sums-add")
		}
	case 2:
		r, err := GetSegAvg(verifC04Clone(sa), sb)
		zz.Assert(err == nil, "segstats/avg-no-error")
		zz.Observe("avg", r.FloatVal)
		var want float64
		n := float64(a.ncount + b.ncount)
		switch {
		case !a.sumIsFloat && !b.sumIsFloat:
			want = float64(a.sumI+b.sumI) / n
		case a.sumIsFloat && b.sumIsFloat:
			want = (a.sumF + b.sumF) / n
		case a.sumIsFloat:
			want = (a.sumF + float64(b.sumI)) / n
		default:
			want = (float64(a.sumI) + b.sumF) / n
		}
		zz.Assert(math.Float64bits(r.FloatVal) == math.Float64bits(want), "segstats/avg-is-total-sum-over-total-numeric-count")
	case 3:
		r, err := GetSegMin(verifC04Clone(sa), sb)
		zz.Assert(err == nil, "segstats/min-no-error")
		got := verifC04AsFloat(r)
		want := a.minF
		if b.minF < want {
			want = b.minF
		}
		zz.Assert(got == want, "segstats/min-of-segments")
	case 4:
		r, err := GetSegMax(verifC04Clone(sa), sb)
		zz.Assert(err == nil, "segstats/max-no-error")
		got := verifC04AsFloat(r)
		want := a.maxF
		if b.maxF > want {
			want = b.maxF
		}
		zz.Assert(got == want, "segstats/max-of-segments")
	}
}
