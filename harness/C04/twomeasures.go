//go:build verif

package segresults

// C04-H5: several statistics over the same column in one query (`stats sum(x), avg(x)`)
// each equal the aggregate over all segments: one measure's running state must not leak
// into another's.
//
//verif:pkg pkg/segment/results/segresults
//verif:entry VerifC04MeasuresOnOneColumnAcrossSegments conf=8
//verif:bound two measures drawn from {sum, avg, min, max, count, range} (any ordered pair, equal ones included) over the same column, folded over 2..3 segments by SearchResults.UpdateSegmentStats; per segment a free integer sum |s| <= 2^40, free counts 1..2^20 (numeric <= total) and free integer min <= max with |v| <= 2^40
//verif:outside cardinality/percentile/values/list/latest (sketches and sets), eval-expression measures, float-valued sums, remote (distributed) statistics
//verif:assume for avg the running totals (sum, numeric count) the reader divides are compared, not the quotient (free-integer float division does not finish in the solvers)

import (
	"sync"

	"github.com/siglens/siglens/pkg/segment/structs"
	sutils "github.com/siglens/siglens/pkg/segment/utils"
	zz "github.com/siglens/siglens/pkg/zzverif"
)

func VerifC04MeasuresOnOneColumnAcrossSegments() {
	fns := []sutils.AggregateFunctions{sutils.Sum, sutils.Avg, sutils.Min, sutils.Max, sutils.Count, sutils.Range}
	f0 := fns[zz.Choice("measure0", len(fns))]
	f1 := fns[zz.Choice("measure1", len(fns))]
	ops := []*structs.MeasureAggregator{{MeasureCol: "x", MeasureFunc: f0}, {MeasureCol: "x", MeasureFunc: f1, StrEnc: "second"}}
	sr := &SearchResults{updateLock: &sync.Mutex{}, runningSegStat: make([]*structs.SegStats, len(ops)),
		runningEvalStats: map[string]interface{}{}}
	sr.InitSegmentStatsResults(ops)

	n := 2 + zz.Choice("segments", 2)
	var totSum, totCnt, totNum, lo, hi int64
	for i := 0; i < n; i++ {
		sum := int64(zz.IntRange(zz.Name("sum", i), -(1 << 40), 1<<40))
		cnt := int64(zz.IntRange(zz.Name("count", i), 1, 1<<20))
		num := int64(zz.IntRange(zz.Name("numericCount", i), 1, 1<<20))
		zz.Assume(num <= cnt)
		mn := int64(zz.IntRange(zz.Name("min", i), -(1 << 40), 1<<40))
		mx := int64(zz.IntRange(zz.Name("max", i), -(1 << 40), 1<<40))
		zz.Assume(mn <= mx)
		totSum += sum
		totCnt += cnt
		totNum += num
		if i == 0 || mn < lo {
			lo = mn
		}
		if i == 0 || mx > hi {
			hi = mx
		}
		sst := map[string]*structs.SegStats{"x": {IsNumeric: true, Count: uint64(cnt),
			Min:      sutils.CValueEnclosure{Dtype: sutils.SS_DT_SIGNED_NUM, CVal: mn},
			Max:      sutils.CValueEnclosure{Dtype: sutils.SS_DT_SIGNED_NUM, CVal: mx},
			NumStats: &structs.NumericStats{NumericCount: uint64(num), Sum: sutils.NumTypeEnclosure{Ntype: sutils.SS_DT_SIGNED_NUM, IntgrVal: sum}}}}
		zz.Assert(sr.UpdateSegmentStats(sst, ops) == nil, "twomeasures/update-no-error")
	}
	for k, m := range ops {
		res, ok := sr.segStatsResults.measureResults[m.String()]
		zz.Assert(ok, "twomeasures/result-present")
		if !ok {
			continue
		}
		label := func(s string) string {
			if k == 0 {
				return "twomeasures/first-measure/" + s
			}
			return "twomeasures/second-measure/" + s
		}
		asInt := func() (int64, bool) {
			switch v := res.CVal.(type) {
			case int64:
				return v, true
			case uint64:
				return int64(v), true
			}
			return 0, false
		}
		switch m.MeasureFunc {
		case sutils.Sum:
			v, isInt := asInt()
			zz.Observe(zz.Name("sum", k), v)
			zz.Assert(isInt && v == totSum, label("sum-over-all-segments"))
		case sutils.Count:
			v, isInt := asInt()
			zz.Observe(zz.Name("count", k), v)
			zz.Assert(isInt && v == totCnt, label("count-over-all-segments"))
		case sutils.Min:
			v, isInt := asInt()
			zz.Assert(isInt && v == lo, label("min-over-all-segments"))
		case sutils.Max:
			v, isInt := asInt()
			zz.Assert(isInt && v == hi, label("max-over-all-segments"))
		case sutils.Range:
			v, isInt := asInt()
			zz.Assert(isInt && v == hi-lo, label("range-over-all-segments"))
		case sutils.Avg:
			// the reader computes float64(total sum)/float64(total numeric count) from its running totals;
			// the totals are compared as integers (a free-integer float division does not finish in the solvers)
			rs := sr.runningSegStat[k]
			zz.Assert(rs != nil && rs.NumStats != nil, label("avg-running-totals-present"))
			if rs != nil && rs.NumStats != nil {
				zz.Observe(zz.Name("avgSum", k), rs.NumStats.Sum.IntgrVal)
				zz.Observe(zz.Name("avgCount", k), rs.NumStats.NumericCount)
				zz.Assert(rs.NumStats.Sum.Ntype == sutils.SS_DT_SIGNED_NUM && rs.NumStats.Sum.IntgrVal == totSum &&
					rs.NumStats.NumericCount == uint64(totNum), label("avg-over-all-segments"))
			}
		}
	}
}
