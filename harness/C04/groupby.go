//go:build verif

package blockresults

// C04-H4: stats ... by <key>: per-group results equal the aggregate computed directly over
// the group's events; every group key that occurs appears exactly once; a measured field
// that is absent or non-numeric in a group does not disturb the other measures of that group.
//
//verif:pkg pkg/segment/results/blockresults
//verif:entry VerifC04GroupByAccumulation conf=0 replay=no
//verif:stub-always github.com/siglens/siglens/pkg/segment/structs.CreateNewHll verifC04NoHll
//verif:stub-always github.com/siglens/siglens/pkg/utils.CreateNewTDigest verifC04NoTDigest
//verif:stub-always github.com/siglens/siglens/pkg/utils.GetOrCreateBatchErrorWithQid verifC04BatchErr
//verif:stub-always (*github.com/siglens/siglens/pkg/utils.BatchError).AddError verifC04IgnoreBatchErr
//verif:bound 1..2 (quick) / 1..3 (thorough) events, each in group A or B, field f one of {-3, 0, 7} (concrete: range() is computed in floating point), absent or a non-numeric string, fields y and z free integers with |v| <= 2^40; measure lists [range(f), sum(y), max(z)], [min(f), count, sum(y)], [sum(y), range(f)], [max(f), min(z)]; accumulation through InitBlockResults / AddMeasureResultsToKey, results through GetGroupByBuckets
//verif:outside the value of min/max/range over a group that mixes numbers and non-numeric strings (only that it does not disturb the other measures), timechart and its limit option, eval-expression measures, avg/percentile/cardinality/values/list/latest, multi-column keys, merging bucket sets of several segments, the record reader that produces the per-event measure values
//verif:assume HyperLogLog / t-digest constructors are stubbed to nil (only used by measures outside the bound); the batch-error collector (a sync.Map of messages) is stubbed out

import (
	"github.com/siglens/siglens/pkg/segment/structs"
	sutils "github.com/siglens/siglens/pkg/segment/utils"
	"github.com/siglens/siglens/pkg/utils"
	zz "github.com/siglens/siglens/pkg/zzverif"
)

func verifC04NoHll() *utils.GobbableHll                { return nil }
func verifC04NoTDigest() (*utils.GobbableTDigest, error) { return nil, nil }
func verifC04BatchErr(qid uint64) *utils.BatchError     { return utils.NewBatchError() }

func verifC04IgnoreBatchErr(be *utils.BatchError, key string, err error) {}

func verifC04M(fn sutils.AggregateFunctions, col string) *structs.MeasureAggregator {
	return &structs.MeasureAggregator{MeasureCol: col, MeasureFunc: fn}
}

func VerifC04GroupByAccumulation() {
	var ops []*structs.MeasureAggregator
	shape := zz.Choice("measures", 4)
	switch shape {
	case 0:
		ops = []*structs.MeasureAggregator{verifC04M(sutils.Range, "f"), verifC04M(sutils.Sum, "y"), verifC04M(sutils.Max, "z")}
	case 1:
		ops = []*structs.MeasureAggregator{verifC04M(sutils.Min, "f"), verifC04M(sutils.Count, "*"), verifC04M(sutils.Sum, "y")}
	case 2:
		ops = []*structs.MeasureAggregator{verifC04M(sutils.Sum, "y"), verifC04M(sutils.Range, "f")}
	default:
		ops = []*structs.MeasureAggregator{verifC04M(sutils.Max, "f"), verifC04M(sutils.Min, "z")}
	}
	req := &structs.GroupByRequest{GroupByColumns: []string{"k"}, MeasureOperations: ops, BucketCount: 10}
	br, err := InitBlockResults(0, &structs.QueryAggregators{GroupByRequest: req}, 0)
	zz.Assert(err == nil && br != nil && br.GroupByAggregation != nil, "groupby/init")
	if err != nil || br == nil || br.GroupByAggregation == nil {
		return
	}
	_, internal := br.GetConvertedMeasureInfo()

	maxN := 2
	if zz.Tier() > 0 {
		maxN = 3
	}
	n := 1 + zz.Choice("events", maxN)
	type ev struct {
		g       int
		fKind   int // 0 number, 1 absent, 2 string
		f, y, z int64
	}
	evs := make([]ev, n)
	for i := range evs {
		e := &evs[i]
		e.g = zz.Choice(zz.Name("group", i), 2)
		e.fKind = zz.Choice(zz.Name("fKind", i), 3)
		e.f = []int64{-3, 0, 7}[zz.Choice(zz.Name("f", i), 3)] // concrete: range() is computed in floating point
		e.y = int64(zz.IntRange(zz.Name("y", i), -(1 << 40), 1<<40))
		e.z = int64(zz.IntRange(zz.Name("z", i), -(1 << 40), 1<<40))
		key := []byte{sutils.VALTYPE_ENC_SMALL_STRING[0], 1, 0, byte('A' + e.g)}
		mr := make([]sutils.CValueEnclosure, len(internal))
		for k, m := range internal {
			switch m.MeasureCol {
			case "f":
				switch e.fKind {
				case 0:
					mr[k] = sutils.CValueEnclosure{Dtype: sutils.SS_DT_SIGNED_NUM, CVal: e.f}
				case 1:
					mr[k] = sutils.CValueEnclosure{Dtype: sutils.SS_DT_BACKFILL}
				default:
					mr[k] = sutils.CValueEnclosure{Dtype: sutils.SS_DT_STRING, CVal: "n/a"}
				}
			case "y":
				mr[k] = sutils.CValueEnclosure{Dtype: sutils.SS_DT_SIGNED_NUM, CVal: e.y}
			case "z":
				mr[k] = sutils.CValueEnclosure{Dtype: sutils.SS_DT_SIGNED_NUM, CVal: e.z}
			default:
				mr[k] = sutils.CValueEnclosure{Dtype: sutils.SS_DT_BACKFILL}
			}
		}
		br.AddMeasureResultsToKey(key, mr, "", false, 0, nil)
	}

	res := br.GetGroupByBuckets()
	zz.Assert(res != nil, "groupby/result")
	if res == nil {
		return
	}
	seen := [2]int{}
	for _, b := range res.Results {
		g := -1
		switch k := b.BucketKey.(type) {
		case string:
			g = int(k[0] - 'A')
		case []string:
			g = int(k[0][0] - 'A')
		case []interface{}:
			if s, ok := k[0].(string); ok {
				g = int(s[0] - 'A')
			}
		}
		zz.Assert(g == 0 || g == 1, "groupby/bucket-key-decodes")
		if g != 0 && g != 1 {
			continue
		}
		seen[g]++
		// specification over the group's events
		cnt, fcnt := 0, 0
		fMixed := false // a non-numeric string among the group's f values: min/max/range semantics over mixed types are not fixed by C04
		var sumY, maxZ, minZ, minF, maxF int64
		for _, e := range evs {
			if e.g != g {
				continue
			}
			if cnt == 0 || e.z > maxZ {
				maxZ = e.z
			}
			if cnt == 0 || e.z < minZ {
				minZ = e.z
			}
			sumY += e.y
			cnt++
			if e.fKind == 2 {
				fMixed = true
			}
			if e.fKind == 0 {
				if fcnt == 0 || e.f < minF {
					minF = e.f
				}
				if fcnt == 0 || e.f > maxF {
					maxF = e.f
				}
				fcnt++
			}
		}
		zz.Assert(b.ElemCount == uint64(cnt), "groupby/element-count")
		// integer results are compared as integers (no floating point in the query); range() is float
		eq := func(name string, want int64) bool {
			v, ok := b.StatRes[name]
			if !ok || v.CVal == nil {
				return false
			}
			switch x := v.CVal.(type) {
			case int64:
				return x == want
			case uint64:
				return want >= 0 && x == uint64(want)
			case float64:
				return x == float64(want)
			}
			return false
		}
		for _, m := range ops {
			name := m.String()
			switch {
			case m.MeasureFunc == sutils.Sum && m.MeasureCol == "y":
				zz.Assert(eq(name, sumY), "groupby/sum-of-the-group")
			case m.MeasureFunc == sutils.Max && m.MeasureCol == "z":
				zz.Assert(eq(name, maxZ), "groupby/max-of-the-group")
			case m.MeasureFunc == sutils.Min && m.MeasureCol == "z":
				zz.Assert(eq(name, minZ), "groupby/min-of-the-group")
			case m.MeasureFunc == sutils.Count:
				zz.Assert(eq(name, int64(cnt)), "groupby/count-of-the-group")
			case m.MeasureCol == "f" && fcnt > 0 && !fMixed && m.MeasureFunc == sutils.Range:
				zz.Assert(eq(name, maxF-minF), "groupby/range-over-the-numeric-values")
			case m.MeasureCol == "f" && fcnt > 0 && !fMixed && m.MeasureFunc == sutils.Min:
				zz.Assert(eq(name, minF), "groupby/min-over-the-numeric-values")
			case m.MeasureCol == "f" && fcnt > 0 && !fMixed && m.MeasureFunc == sutils.Max:
				zz.Assert(eq(name, maxF), "groupby/max-over-the-numeric-values")
			}
		}
	}
	for g := 0; g < 2; g++ {
		occurs := false
		for _, e := range evs {
			if e.g == g {
				occurs = true
			}
		}
		if occurs {
			zz.Assert(seen[g] == 1, "groupby/every-occurring-key-appears-exactly-once")
		} else {
			zz.Assert(seen[g] == 0, "groupby/no-group-without-events")
		}
	}
}
