//go:build verif

package structs

// C04 (earliest / latest across pieces): merging the statistics of pieces of one column in any
// order gives the earliest and latest event of all pieces, each with its own value - also when
// a later piece extends the accumulated time range on both sides.
//
//verif:pkg pkg/segment/structs
//verif:entry VerifC04EarliestLatestOfMergedPieces conf=8
//verif:bound 2..3 pieces folded with SegStats.Merge in arrival order, each with free 16-bit earliest <= latest timestamps and free int64 earliest/latest values; distinct extreme timestamps (ties leave the choice of value open)
//verif:outside the per-record accumulation inside one piece, the other statistics merged by the same call (VerifC04SegStatsMerge), string values
//verif:assume none

import (
	sutils "github.com/siglens/siglens/pkg/segment/utils"
	zz "github.com/siglens/siglens/pkg/zzverif"
)

func VerifC04EarliestLatestOfMergedPieces() {
	n := 2 + zz.Choice("pieces", 2)
	lo, hi := make([]uint64, n), make([]uint64, n)
	loV, hiV := make([]int64, n), make([]int64, n)
	var run *SegStats
	for i := 0; i < n; i++ {
		lo[i], hi[i] = uint64(zz.U16(zz.Name("earliestTs", i))), uint64(zz.U16(zz.Name("latestTs", i)))
		zz.Assume(lo[i] <= hi[i])
		loV[i], hiV[i] = zz.I64(zz.Name("earliestVal", i)), zz.I64(zz.Name("latestVal", i))
		piece := &SegStats{Count: 1, TimeStats: &TimeStats{
			EarliestTs:  sutils.CValueEnclosure{Dtype: sutils.SS_DT_UNSIGNED_NUM, CVal: lo[i]},
			LatestTs:    sutils.CValueEnclosure{Dtype: sutils.SS_DT_UNSIGNED_NUM, CVal: hi[i]},
			EarliestVal: sutils.CValueEnclosure{Dtype: sutils.SS_DT_SIGNED_NUM, CVal: loV[i]},
			LatestVal:   sutils.CValueEnclosure{Dtype: sutils.SS_DT_SIGNED_NUM, CVal: hiV[i]},
		}}
		if run == nil {
			run = piece
		} else {
			run.Merge(piece)
		}
	}
	e, l := 0, 0
	for i := 1; i < n; i++ {
		zz.Assume(lo[i] != lo[e] && hi[i] != hi[l])
		if lo[i] < lo[e] {
			e = i
		}
		if hi[i] > hi[l] {
			l = i
		}
	}
	for i := 0; i < n; i++ {
		for j := 0; j < i; j++ {
			zz.Assume(lo[i] != lo[j] && hi[i] != hi[j])
		}
	}
	ts := run.TimeStats
	gotE, _ := ts.EarliestTs.CVal.(uint64)
	gotL, _ := ts.LatestTs.CVal.(uint64)
	gotEV, _ := ts.EarliestVal.CVal.(int64)
	gotLV, _ := ts.LatestVal.CVal.(int64)
	zz.Observe("earliest", gotE)
	zz.Observe("latest", gotL)
	zz.Assert(gotE == lo[e], "timestats/earliest-time-of-all-pieces")
	zz.Assert(gotL == hi[l], "timestats/latest-time-of-all-pieces")
	zz.Assert(gotEV == loV[e], "timestats/earliest-value-belongs-to-the-earliest-event")
	zz.Assert(gotLV == hiV[l], "timestats/latest-value-belongs-to-the-latest-event")
}
