// gosym: solver-based checking of the real SigLens code.
//
//	gosym check <property> quick|thorough     run the property's harnesses
//	gosym replay <property> <replay.json>      re-run one counterexample natively
//
// The SSA of /repo's *current working tree* is rebuilt on every invocation;
// harnesses are injected with a build overlay (nothing is written to /repo).
package main

import (
	"encoding/json"
	"flag"
	"fmt"
	"go/types"
	"os"
	"os/exec"
	"path/filepath"
	"regexp"
	"sort"
	"strconv"
	"strings"
	"time"

	"gosym/interp"

	"golang.org/x/tools/go/packages"
	"golang.org/x/tools/go/ssa"
	"golang.org/x/tools/go/ssa/ssautil"
)

const modulePath = "github.com/siglens/siglens"

var (
	repoDir  = envOr("VERIF_REPO", "/repo")
	verifDir = envOr("VERIF_DIR", "/verif")
)

func envOr(k, d string) string {
	if v := os.Getenv(k); v != "" {
		return v
	}
	return d
}

type entrySpec struct {
	Name       string
	File       string
	PkgDir     string
	Tiers      map[string]bool
	Conf       int // number of conformance vectors
	Depth      int
	Steps      int64
	Workers    int
	MaxPaths   int
	NoReplay   bool // counterexamples cannot be replayed natively (contract stubs)
	PoolReuse  bool // pool=reuse: sync.Pool.Get returns the most recently Put object
	GoDeferred bool // go=deferred: spawned goroutines run at the next WaitGroup.Wait
	NoConc     bool // summaries stay symbolic (no forking over their paths)
}

type harnessFile struct {
	Path       string
	PkgDir     string
	Content    []byte
	Entries    []*entrySpec
	Stubs      [][2]string
	Summ       []string
	SummConc   []string
	StubAlways []string
	Load       []string
	Bridges    [][2]string
	Bounds     []string
	Outside    []string
	Assume     []string
}

func parseHarness(path string) (*harnessFile, error) {
	data, err := os.ReadFile(path)
	if err != nil {
		return nil, err
	}
	hf := &harnessFile{Path: path, Content: data}
	for _, line := range strings.Split(string(data), "\n") {
		line = strings.TrimSpace(line)
		if !strings.HasPrefix(line, "//verif:") {
			continue
		}
		rest := strings.TrimPrefix(line, "//verif:")
		sp := strings.SplitN(rest, " ", 2)
		arg := ""
		if len(sp) > 1 {
			arg = strings.TrimSpace(sp[1])
		}
		switch sp[0] {
		case "pkg":
			hf.PkgDir = arg
		case "entry":
			f := strings.Fields(arg)
			e := &entrySpec{Name: f[0], File: path, Tiers: map[string]bool{"quick": true, "thorough": true}, Conf: 3}
			for _, kv := range f[1:] {
				p := strings.SplitN(kv, "=", 2)
				if len(p) != 2 {
					continue
				}
				switch p[0] {
				case "tier":
					e.Tiers = map[string]bool{}
					for _, t := range strings.Split(p[1], ",") {
						e.Tiers[t] = true
					}
				case "conf":
					e.Conf, _ = strconv.Atoi(p[1])
				case "depth":
					e.Depth, _ = strconv.Atoi(p[1])
				case "steps":
					n, _ := strconv.Atoi(p[1])
					e.Steps = int64(n)
				case "workers":
					e.Workers, _ = strconv.Atoi(p[1])
				case "maxpaths":
					e.MaxPaths, _ = strconv.Atoi(p[1])
				case "replay":
					e.NoReplay = p[1] == "no"
				case "conc":
					e.NoConc = p[1] == "no"
				case "go":
					e.GoDeferred = p[1] == "deferred"
				case "pool":
					e.PoolReuse = p[1] == "reuse"
				}
			}
			hf.Entries = append(hf.Entries, e)
		case "stub", "stub-always":
			f := strings.Fields(arg)
			if len(f) == 2 {
				hf.Stubs = append(hf.Stubs, [2]string{f[0], f[1]})
				if sp[0] == "stub-always" {
					hf.StubAlways = append(hf.StubAlways, f[0])
				}
			}
		case "load":
			hf.Load = append(hf.Load, arg)
		case "bridge":
			f := strings.Fields(arg)
			if len(f) == 2 {
				hf.Bridges = append(hf.Bridges, [2]string{f[0], f[1]})
			}
		case "summarize":
			hf.Summ = append(hf.Summ, arg)
		case "summarize-conc":
			hf.Summ = append(hf.Summ, arg)
			hf.SummConc = append(hf.SummConc, arg)
		case "bound":
			hf.Bounds = append(hf.Bounds, arg)
		case "outside":
			hf.Outside = append(hf.Outside, arg)
		case "assume":
			hf.Assume = append(hf.Assume, arg)
		}
	}
	if hf.PkgDir == "" {
		return nil, fmt.Errorf("%s: missing //verif:pkg", path)
	}
	for _, e := range hf.Entries {
		e.PkgDir = hf.PkgDir
	}
	return hf, nil
}

func overlayName(hf *harnessFile) string {
	return filepath.Join(repoDir, hf.PkgDir, "zz_verif_"+filepath.Base(hf.Path))
}

type knownFinding struct {
	Property string `json:"property"`
	Status   string `json:"status"` // "known" | "fixed"
	Harness  string `json:"harness"`
	Kind     string `json:"kind"`
	Label    string `json:"label"`
	SiteFunc string `json:"site_func,omitempty"`
	What     string `json:"what"`
	Commit   string `json:"commit,omitempty"`
}

func loadKnown() []knownFinding {
	var k []knownFinding
	data, err := os.ReadFile(filepath.Join(verifDir, "known_findings.json"))
	if err != nil {
		return nil
	}
	if err := json.Unmarshal(data, &k); err != nil {
		fmt.Fprintf(os.Stderr, "known_findings.json: %v\n", err)
		os.Exit(3)
	}
	return k
}

var siteFuncRe = regexp.MustCompile(`^(.*) \(([^:]+):(\d+)\)$`)

func siteFunc(site string) string {
	if m := siteFuncRe.FindStringSubmatch(site); m != nil {
		return m[1]
	}
	return site
}

func matchKnown(known []knownFinding, prop string, v interp.Violation) *knownFinding {
	for k := range known {
		f := &known[k]
		if f.Status != "known" || f.Property != prop || f.Harness != v.Harness || f.Kind != v.Kind {
			continue
		}
		if v.Kind == "assert" && f.Label == v.Label {
			return f
		}
		if (v.Kind == "panic" || v.Kind == "hang") && f.SiteFunc == siteFunc(v.Site) {
			return f
		}
	}
	return nil
}

func main() {
	if len(os.Args) < 2 {
		usage()
	}
	switch os.Args[1] {
	case "check":
		os.Exit(cmdCheck(os.Args[2:]))
	case "replay":
		os.Exit(cmdReplay(os.Args[2:]))
	default:
		usage()
	}
}

func usage() {
	fmt.Fprintln(os.Stderr, "usage: gosym check <prop> quick|thorough [-only entry] [-debug]\n       gosym replay <prop> <file>")
	os.Exit(2)
}

// fileCfg: stubs and summaries are scoped to the harness file that declares them.
type fileCfg struct {
	stubs  map[string]*ssa.Function
	always map[string]bool
	summ   map[string]bool
	conc   map[string]bool
}

func (ld *loaded) apply(file string) {
	fc := ld.cfg[file]
	ld.sh.Stubs, ld.sh.StubAlways, ld.sh.Summarize, ld.sh.SummarizeConc = fc.stubs, fc.always, fc.summ, fc.conc
}

type loaded struct {
	cfg     map[string]*fileCfg
	sh      *interp.Shared
	entries map[string]*ssa.Function
	pkgs    map[string]*ssa.Package
	loadS   float64
}

func load(files []*harnessFile) (*loaded, error) {
	t0 := time.Now()
	overlay := map[string][]byte{}
	zz, err := os.ReadFile(filepath.Join(verifDir, "engine/zzverif/zzverif.go"))
	if err != nil {
		return nil, err
	}
	overlay[filepath.Join(repoDir, "pkg/zzverif/zzverif.go")] = zz
	patterns := map[string]bool{}
	for _, hf := range files {
		overlay[overlayName(hf)] = hf.Content
		patterns["./"+hf.PkgDir] = true
		for _, l := range hf.Load {
			patterns["./"+l] = true
		}
	}
	var pats []string
	for p := range patterns {
		pats = append(pats, p)
	}
	sort.Strings(pats)
	cfg := &packages.Config{
		Mode:       packages.NeedName | packages.NeedFiles | packages.NeedCompiledGoFiles | packages.NeedImports | packages.NeedDeps | packages.NeedTypes | packages.NeedSyntax | packages.NeedTypesInfo | packages.NeedTypesSizes | packages.NeedModule,
		Dir:        repoDir,
		Overlay:    overlay,
		BuildFlags: []string{"-tags=verif,appengine", "-mod=mod"},
		Env:        append(os.Environ(), "GOFLAGS=-mod=mod", "GOPROXY=off", "GOSUMDB=off", "GOTOOLCHAIN=local", "CGO_ENABLED=1"),
	}
	initial, err := packages.Load(cfg, pats...)
	if err != nil {
		return nil, err
	}
	nerr := 0
	packages.Visit(initial, nil, func(p *packages.Package) {
		for _, e := range p.Errors {
			if nerr < 20 {
				fmt.Fprintf(os.Stderr, "load error: %s: %v\n", p.PkgPath, e)
			}
			nerr++
		}
	})
	if nerr > 0 {
		return nil, fmt.Errorf("%d package load errors (does /repo still compile?)", nerr)
	}
	prog, pkgs := ssautil.AllPackages(initial, ssa.InstantiateGenerics)
	sh := interp.NewShared(prog, modulePath)
	ld := &loaded{cfg: map[string]*fileCfg{}, sh: sh, entries: map[string]*ssa.Function{}, pkgs: map[string]*ssa.Package{}}
	for k, p := range pkgs {
		if p == nil {
			return nil, fmt.Errorf("no SSA package for %s", initial[k].PkgPath)
		}
		p.Build()
		ld.pkgs[strings.TrimPrefix(initial[k].PkgPath, modulePath+"/")] = p
	}
	for _, hf := range files {
		p := ld.pkgs[hf.PkgDir]
		if p == nil {
			return nil, fmt.Errorf("package for %s not loaded", hf.PkgDir)
		}
		for _, e := range hf.Entries {
			fn := p.Func(e.Name)
			if fn == nil {
				return nil, fmt.Errorf("%s: entry %s not found in %s", hf.Path, e.Name, hf.PkgDir)
			}
			ld.entries[e.Name] = fn
		}
		fc := &fileCfg{stubs: map[string]*ssa.Function{}, always: map[string]bool{}, summ: map[string]bool{}, conc: map[string]bool{}}
		for _, sm := range hf.Summ {
			fc.summ[sm] = true
		}
		for _, sa := range hf.StubAlways {
			fc.always[sa] = true
		}
		for _, sm := range hf.SummConc {
			fc.conc[sm] = true
		}
		for _, st := range hf.Stubs {
			fn := p.Func(st[1])
			if fn == nil {
				return nil, fmt.Errorf("%s: stub function %s not found", hf.Path, st[1])
			}
			fc.stubs[st[0]] = fn
		}
		for _, br := range hf.Bridges {
			local := p.Func(br[0])
			if local == nil {
				return nil, fmt.Errorf("%s: bridge: local function %s not found", hf.Path, br[0])
			}
			target, err := findFunc(prog, br[1])
			if err != nil {
				return nil, fmt.Errorf("%s: bridge: %v", hf.Path, err)
			}
			fc.stubs[local.String()] = target
			fc.always[local.String()] = true
		}
		ld.cfg[hf.Path] = fc
	}
	ld.loadS = time.Since(t0).Seconds()
	return ld, nil
}

// findFunc resolves "pkgpath.Func" or "(*pkgpath.Type).Method" in the program,
// including unexported names.
func findFunc(prog *ssa.Program, name string) (*ssa.Function, error) {
	if strings.HasPrefix(name, "(") {
		end := strings.Index(name, ").")
		if end < 0 {
			return nil, fmt.Errorf("bad method name %s", name)
		}
		recv, meth := name[1:end], name[end+2:]
		ptr := strings.HasPrefix(recv, "*")
		recv = strings.TrimPrefix(recv, "*")
		dot := strings.LastIndex(recv, ".")
		pkg := prog.ImportedPackage(recv[:dot])
		if pkg == nil {
			return nil, fmt.Errorf("package %s not loaded", recv[:dot])
		}
		tp := pkg.Type(recv[dot+1:])
		if tp == nil {
			return nil, fmt.Errorf("type %s not found", recv)
		}
		pkg.Build()
		var T types.Type = tp.Object().Type()
		if ptr {
			T = types.NewPointer(T)
		}
		fn := prog.LookupMethod(T, pkg.Pkg, meth)
		if fn == nil {
			return nil, fmt.Errorf("method %s not found", name)
		}
		return fn, nil
	}
	dot := strings.LastIndex(name, ".")
	pkg := prog.ImportedPackage(name[:dot])
	if pkg == nil {
		return nil, fmt.Errorf("package %s not loaded", name[:dot])
	}
	pkg.Build()
	fn := pkg.Func(name[dot+1:])
	if fn == nil {
		return nil, fmt.Errorf("function %s not found", name)
	}
	return fn, nil
}

func harnessFiles(prop string) ([]*harnessFile, error) {
	dir := filepath.Join(verifDir, "harness", prop)
	ents, err := os.ReadDir(dir)
	if err != nil {
		return nil, err
	}
	var files []*harnessFile
	for _, e := range ents {
		if !strings.HasSuffix(e.Name(), ".go") {
			continue
		}
		hf, err := parseHarness(filepath.Join(dir, e.Name()))
		if err != nil {
			return nil, err
		}
		files = append(files, hf)
	}
	return files, nil
}

type evidence struct {
	PropertyID  string                 `json:"property_id"`
	Tier        string                 `json:"tier"`
	Seed        int64                  `json:"seed"`
	Level       string                 `json:"level"`
	Coverage    map[string]interface{} `json:"coverage"`
	Assumptions []string               `json:"assumptions"`
	WallS       float64                `json:"wall_s"`
	Violations  int                    `json:"violations"`
}

func cmdCheck(args []string) int {
	fs := flag.NewFlagSet("check", flag.ExitOnError)
	only := fs.String("only", "", "run only this entry")
	debug := fs.Bool("debug", false, "debug output")
	trace := fs.Bool("trace", false, "instruction trace")
	workers := fs.Int("workers", 0, "workers per harness")
	noNative := fs.Bool("no-native", false, "skip native replay/conformance")
	smtlog := fs.String("smtlog", "", "directory for solver transcripts")
	maxpaths := fs.Int("maxpaths", 0, "stop after this many paths (debugging)")
	if len(args) < 2 {
		usage()
	}
	prop, tier := args[0], args[1]
	fs.Parse(args[2:])
	if tier != "quick" && tier != "thorough" {
		usage()
	}
	t0 := time.Now()
	seed := int64(1)
	if s := os.Getenv("VERIF_SEED"); s != "" {
		if n, err := strconv.ParseInt(s, 10, 64); err == nil {
			seed = n
		}
	}
	files, err := harnessFiles(prop)
	if err != nil {
		fmt.Fprintf(os.Stderr, "INCONCLUSIVE property=%s: %v\n", prop, err)
		return 3
	}
	ld, err := load(files)
	if err != nil {
		fmt.Fprintf(os.Stderr, "INCONCLUSIVE property=%s: load failed: %v\n", prop, err)
		return 3
	}
	fmt.Printf("loaded SSA from %s in %.1fs\n", repoDir, ld.loadS)
	known := loadKnown()

	var results []*interp.HarnessResult
	var specs []*entrySpec
	inconclusive := []string{}
	for _, hf := range files {
		for _, e := range hf.Entries {
			if !e.Tiers[tier] || (*only != "" && e.Name != *only) {
				continue
			}
			cfg := interp.DefaultConfig()
			cfg.Debug, cfg.Trace = *debug, *trace
			cfg.Seed = seed
			cfg.SMTLogDir = *smtlog
			if tier == "thorough" {
				cfg.Tier = 1
				cfg.Diff = true
			}
			cfg.Workers = 12
			if e.Workers > 0 {
				cfg.Workers = e.Workers
			}
			if *workers > 0 {
				cfg.Workers = *workers
			}
			if e.Depth > 0 {
				cfg.MaxDepth = e.Depth
			}
			if e.Steps > 0 {
				cfg.MaxSteps = e.Steps
			}
			if e.MaxPaths > 0 {
				cfg.MaxPaths = e.MaxPaths
			}
			cfg.NoSummConc = e.NoConc
			cfg.GoDeferred = e.GoDeferred
			cfg.PoolReuse = e.PoolReuse
			if *maxpaths > 0 {
				cfg.MaxPaths = *maxpaths
			}
			ld.apply(e.File)
			hr := interp.Explore(ld.sh, cfg, ld.entries[e.Name])
			results = append(results, hr)
			specs = append(specs, e)
			fmt.Printf("harness %-34s paths=%-6d oblig=%-6d discharged=%-6d viol=%-3d unknown=%d unsupported=%d unwind=%d queries=%d solver=%.1fs wall=%.1fs\n",
				e.Name, hr.Paths, hr.Obligations, hr.Discharged, len(hr.Violations), len(hr.Unknown), len(hr.Unsupported), len(hr.Unwind), hr.Solver.Queries, hr.Solver.Time.Seconds(), hr.Wall.Seconds())
			if len(hr.Unknown) > 0 {
				inconclusive = append(inconclusive, fmt.Sprintf("%s: UNKNOWN %s", e.Name, hr.Unknown[0]))
			}
			if len(hr.Unsupported) > 0 {
				inconclusive = append(inconclusive, fmt.Sprintf("%s: UNSUPPORTED %s", e.Name, hr.Unsupported[0]))
			}
			if hr.Truncated {
				inconclusive = append(inconclusive, fmt.Sprintf("%s: path limit reached", e.Name))
			}
			// vacuity: at least one assertion must have been reached
			nAssert := 0
			for k := range hr.Reached {
				if strings.HasPrefix(k, "assert:") {
					nAssert++
				}
			}
			if nAssert == 0 {
				inconclusive = append(inconclusive, fmt.Sprintf("%s: VACUOUS (no assertion reached on any feasible path)", e.Name))
			}
		}
	}
	if len(results) == 0 {
		fmt.Fprintf(os.Stderr, "INCONCLUSIVE property=%s: no harness for tier %s\n", prop, tier)
		return 3
	}

	// ---- native: conformance vectors + replay of counterexamples
	type cand struct {
		v     interp.Violation
		spec  *entrySpec
		jobID string
	}
	var cands []cand
	seen := map[string]bool{}
	for k, hr := range results {
		perLabel := map[string]int{}
		for _, v := range hr.Violations {
			key := v.Harness + "|" + v.Kind + "|" + v.Label + "|" + siteFunc(v.Site)
			perLabel[key]++
			if perLabel[key] > 2 || seen[key+strconv.Itoa(perLabel[key])] {
				continue
			}
			seen[key+strconv.Itoa(perLabel[key])] = true
			cands = append(cands, cand{v: v, spec: specs[k], jobID: fmt.Sprintf("cx%d", len(cands))})
		}
	}
	nat := newNative(files, prop, tier)
	defer nat.cleanup()
	tracesValidated := 0
	confMismatch := []string{}
	if !*noNative {
		// conformance
		for k, hr := range results {
			e := specs[k]
			_ = hr
			for n := 0; n < e.Conf; n++ {
				s := uint64(seed)*1000 + uint64(n)
				jid := fmt.Sprintf("conf-%s-%d", e.Name, n)
				nat.add(e.PkgDir, nativeJob{ID: jid, Harness: e.Name, Mode: "random", Seed: s, Tier: tierNum(tier)})
			}
		}
		for _, c := range cands {
			if c.spec.NoReplay {
				continue
			}
			nat.add(c.spec.PkgDir, nativeJob{ID: c.jobID, Harness: c.v.Harness, Mode: "replay", Values: c.v.Model, Tier: tierNum(tier)})
		}
		if err := nat.run(); err != nil {
			inconclusive = append(inconclusive, "native build/run failed: "+err.Error())
		} else {
			for k := range results {
				e := specs[k]
				for n := 0; n < e.Conf; n++ {
					s := uint64(seed)*1000 + uint64(n)
					jid := fmt.Sprintf("conf-%s-%d", e.Name, n)
					nres := nat.results[jid]
					if nres == nil {
						confMismatch = append(confMismatch, jid+": no native result")
						continue
					}
					cfg := interp.DefaultConfig()
					cfg.Tier = tierNum(tier)
					if e.Steps > 0 {
						cfg.MaxSteps = e.Steps
					}
					cfg.GoDeferred = e.GoDeferred
					cfg.PoolReuse = e.PoolReuse
					ld.apply(e.File)
					obs, viol, note := interp.RunConcrete(ld.sh, cfg, ld.entries[e.Name], interp.RandomInputs(s), true)
					var eng []string
					eng = append(eng, obs...)
					for _, v := range viol {
						if v.Kind == "assert" {
							eng = append(eng, "ASSERT-FAIL "+v.Label)
						} else {
							eng = append(eng, "PANIC")
							if *debug {
								fmt.Fprintf(os.Stderr, "concrete-mode %s: %s at %s: %s\n", jid, v.Kind, v.Site, v.Msg)
							}
						}
					}
					if note == "ASSUME-FAIL" {
						eng = []string{"ASSUME-FAIL"}
					} else if note != "" {
						confMismatch = append(confMismatch, jid+": engine: "+note)
						continue
					}
					natl := nres.normal()
					// the engine reports failed assertions after the observations; order the native log the same way
					{
						var o, f []string
						for _, l := range natl {
							if strings.HasPrefix(l, "ASSERT-FAIL ") || l == "PANIC" {
								f = append(f, l)
							} else {
								o = append(o, l)
							}
						}
						natl = append(o, f...)
					}
					if strings.Join(eng, "\n") != strings.Join(natl, "\n") {
						confMismatch = append(confMismatch, fmt.Sprintf("%s: engine %v != native %v", jid, eng, natl))
					} else {
						tracesValidated++
					}
				}
			}
		}
	}
	if len(confMismatch) > 0 {
		for _, m := range confMismatch {
			fmt.Printf("ENGINE-MISMATCH (conformance) %s\n", m)
		}
		inconclusive = append(inconclusive, "conformance mismatch: "+confMismatch[0])
	}

	// ---- classify counterexamples
	exit := 0
	violations := 0
	knownPrinted := map[string]bool{}
	replayDir := filepath.Join(verifDir, "replays", prop)
	for _, c := range cands {
		v := c.v
		confirmed := false
		detail := ""
		if c.spec.NoReplay || *noNative {
			confirmed = true
			detail = "not replayed natively (contract-stub harness)"
		} else if r := nat.results[c.jobID]; r != nil {
			switch v.Kind {
			case "assert":
				for _, l := range r.lines {
					if l == "VERIF-ASSERT-FAIL "+v.Label {
						confirmed = true
					}
				}
			case "panic":
				for _, l := range r.lines {
					if strings.HasPrefix(l, "VERIF-PANIC") {
						confirmed = true
						detail = l
					}
				}
			case "hang":
				confirmed = r.timedOut
			}
			if !confirmed {
				detail = strings.Join(r.lines, " | ")
			}
		}
		if !confirmed {
			fmt.Printf("ENGINE-MISMATCH property=%s harness=%s %s %s: counterexample did not reproduce natively (%s)\n", prop, v.Harness, v.Kind, v.Label, detail)
			inconclusive = append(inconclusive, "counterexample not reproduced: "+v.Harness+" "+v.Label)
			continue
		}
		if f := matchKnown(known, prop, v); f != nil {
			key := f.Harness + f.Kind + f.Label + f.SiteFunc
			if !knownPrinted[key] {
				knownPrinted[key] = true
				fmt.Printf("KNOWN-FINDING: property=%s %s\n", prop, f.What)
			}
			continue
		}
		violations++
		os.MkdirAll(replayDir, 0o755)
		rp := filepath.Join(replayDir, fmt.Sprintf("%s-%s-%d.json", v.Harness, sanitize(v.Label), violations))
		data, _ := json.MarshalIndent(map[string]interface{}{"property": prop, "tier": tier, "violation": v, "pkg_dir": c.spec.PkgDir}, "", " ")
		os.WriteFile(rp, data, 0o644)
		what := v.Label
		if v.Kind != "assert" {
			what = v.Kind + " at " + v.Site + ": " + v.Msg
		}
		fmt.Printf("VIOLATION property=%s replay=%s harness=%s %s\n", prop, rp, v.Harness, what)
		exit = 1
	}

	// ---- evidence
	ev := buildEvidence(prop, tier, seed, files, results, specs, tracesValidated, violations, inconclusive, ld, time.Since(t0).Seconds())
	os.MkdirAll(filepath.Join(verifDir, "evidence"), 0o755)
	data, _ := json.MarshalIndent(ev, "", " ")
	os.WriteFile(filepath.Join(verifDir, "evidence", prop+".json"), data, 0o644)

	if exit == 0 && len(inconclusive) > 0 {
		for _, m := range inconclusive {
			fmt.Printf("INCONCLUSIVE property=%s %s\n", prop, m)
		}
		return 3
	}
	if exit == 0 {
		fmt.Printf("OK property=%s tier=%s wall=%.1fs\n", prop, tier, time.Since(t0).Seconds())
	}
	return exit
}

func tierNum(t string) int {
	if t == "thorough" {
		return 1
	}
	return 0
}

func sanitize(s string) string {
	var sb strings.Builder
	for _, c := range s {
		if c >= 'a' && c <= 'z' || c >= 'A' && c <= 'Z' || c >= '0' && c <= '9' || c == '-' || c == '_' {
			sb.WriteRune(c)
		} else {
			sb.WriteByte('_')
		}
	}
	return sb.String()
}

func buildEvidence(prop, tier string, seed int64, files []*harnessFile, results []*interp.HarnessResult, specs []*entrySpec, traces, violations int, inconclusive []string, ld *loaded, wall float64) *evidence {
	ev := &evidence{PropertyID: prop, Tier: tier, Seed: seed, Level: "model_checking", WallS: wall, Violations: violations}
	cov := map[string]interface{}{}
	paths, instrs, obl, dis, nontriv, queries := 0, int64(0), 0, 0, 0, 0
	var solverS float64
	bySolver := map[string]int{}
	funcs := map[string]string{}
	stubs := map[string]bool{}
	notes := map[string]bool{}
	var samples []interface{}
	perHarness := []map[string]interface{}{}
	goInl := false
	for _, hr := range results {
		paths += hr.Paths
		instrs += hr.Instrs
		obl += hr.Obligations
		dis += hr.Discharged
		nontriv += hr.Nontrivial
		queries += hr.Solver.Queries
		solverS += hr.Solver.Time.Seconds()
		for k, v := range hr.Solver.BySolver {
			bySolver[k] += v
		}
		for k, v := range hr.Funcs {
			if strings.HasPrefix(v, "pkg/") || strings.HasPrefix(v, "cmd/") {
				if !strings.Contains(v, "zz_verif_") && !strings.Contains(v, "zzverif") {
					funcs[k] = v
				}
			}
		}
		for k := range hr.Stubs {
			stubs[k] = true
		}
		for k := range hr.Notes {
			notes[k] = true
		}
		for _, s := range hr.Samples {
			samples = append(samples, s)
		}
		if hr.GoInlined {
			goInl = true
		}
		var reached []string
		for k := range hr.Reached {
			reached = append(reached, k)
		}
		sort.Strings(reached)
		perHarness = append(perHarness, map[string]interface{}{
			"harness": hr.Name, "paths": hr.Paths, "infeasible_assume": hr.Infeasible, "obligations": hr.Obligations, "discharged": hr.Discharged,
			"trivially_true": hr.Trivial, "counterexamples": len(hr.Violations), "unknown": len(hr.Unknown), "unsupported": len(hr.Unsupported),
			"unwind_exceeded": len(hr.Unwind), "max_path_condition": hr.MaxPC, "wall_s": hr.Wall.Seconds(), "queries": hr.Solver.Queries,
			"solver_s": hr.Solver.Time.Seconds(), "max_query_s": hr.Solver.MaxQueryS, "reached": reached,
		})
	}
	if len(samples) == 0 {
		samples = append(samples, map[string]string{"note": "no non-trivial obligation sample recorded"})
	}
	if paths == 0 {
		paths = 1
	}
	if instrs == 0 {
		instrs = 1
	}
	cov["states"] = paths
	cov["transitions"] = instrs
	cov["traces_validated_against_impl"] = traces
	cov["samples"] = samples
	cov["obligations"] = obl
	cov["discharged"] = dis
	cov["evaluations"] = paths
	cov["distinct_nontrivial"] = nontriv
	cov["rule"] = "one evaluation = one feasible path of a harness through the real functions (distinct decision sequence); non-trivial = the path discharged at least one assertion whose formula was not constant"
	cov["exhaustive"] = len(inconclusive) == 0
	cov["harnesses"] = perHarness
	cov["queries"] = queries
	cov["solver_time_s"] = solverS
	cov["queries_by_solver"] = bySolver
	cov["ssa_load_s"] = ld.loadS
	var fl []string
	for k, v := range funcs {
		fl = append(fl, k+" @ "+v)
	}
	sort.Strings(fl)
	cov["functions_encoded"] = fl
	var sl []string
	for k := range stubs {
		sl = append(sl, k)
	}
	sort.Strings(sl)
	cov["stubs"] = sl
	var bounds, outside []string
	for _, hf := range files {
		bounds = append(bounds, hf.Bounds...)
		outside = append(outside, hf.Outside...)
		ev.Assumptions = append(ev.Assumptions, hf.Assume...)
	}
	cov["bounds"] = bounds
	cov["outside_claim"] = outside
	cov["inconclusive"] = inconclusive
	var nl []string
	for k := range notes {
		nl = append(nl, k)
	}
	sort.Strings(nl)
	cov["engine_notes"] = nl
	cov["checker_cmd"] = "./check " + prop + " " + tier
	cov["explanation"] = "bounded symbolic execution of go/ssa built from /repo's working tree; every assertion is discharged by an SMT query (unsat = holds for all values on that path)"
	ev.Assumptions = append(ev.Assumptions,
		"engine: integers are bit-vectors, float64 is SMT FloatingPoint RNE; heap shape is concrete per path; map iteration follows insertion order",
		"solvers z3 4.8.12 / cvc5 1.0 (bv-as-int for FP-free queries) / z3 5.1.0 are trusted for unsat answers; sat answers are replayed natively")
	if goInl {
		ev.Assumptions = append(ev.Assumptions, "go statements executed inline at the spawn point (sequentialised); sync primitives are no-ops")
	}
	if ev.Assumptions == nil {
		ev.Assumptions = []string{}
	}
	ev.Coverage = cov
	return ev
}

// ---------------------------------------------------------------- native runs

type nativeJob struct {
	ID      string            `json:"id"`
	Harness string            `json:"harness"`
	Mode    string            `json:"mode"`
	Seed    uint64            `json:"seed"`
	Values  map[string]uint64 `json:"values"`
	Tier    int               `json:"tier"`
}

type nativeResult struct {
	lines    []string
	timedOut bool
}

// normal returns the observation lines in the engine's format.
func (r *nativeResult) normal() []string {
	var out []string
	for _, l := range r.lines {
		switch {
		case strings.HasPrefix(l, "VERIF-OBS "):
			out = append(out, strings.TrimPrefix(l, "VERIF-OBS "))
		case strings.HasPrefix(l, "VERIF-ASSERT-FAIL "):
			out = append(out, "ASSERT-FAIL "+strings.TrimPrefix(l, "VERIF-ASSERT-FAIL "))
		case strings.HasPrefix(l, "VERIF-PANIC"):
			out = append(out, "PANIC")
		case l == "VERIF-ASSUME-FAIL":
			return []string{"ASSUME-FAIL"}
		}
	}
	return out
}

type native struct {
	files   []*harnessFile
	prop    string
	tier    string
	jobs    map[string][]nativeJob // by pkg dir
	results map[string]*nativeResult
	tmp     string
}

func newNative(files []*harnessFile, prop, tier string) *native {
	return &native{files: files, prop: prop, tier: tier, jobs: map[string][]nativeJob{}, results: map[string]*nativeResult{}}
}

func (n *native) add(pkgDir string, j nativeJob) { n.jobs[pkgDir] = append(n.jobs[pkgDir], j) }

func (n *native) cleanup() {
	if n.tmp != "" {
		os.RemoveAll(n.tmp)
	}
}

func (n *native) run() error {
	if len(n.jobs) == 0 {
		return nil
	}
	tmp, err := os.MkdirTemp("", "gosym-native-")
	if err != nil {
		return err
	}
	n.tmp = tmp
	for pkgDir, jobs := range n.jobs {
		bin, err := buildNative(tmp, n.files, pkgDir)
		if err != nil {
			return err
		}
		jf := filepath.Join(tmp, "jobs-"+sanitize(pkgDir)+".json")
		data, _ := json.Marshal(jobs)
		os.WriteFile(jf, data, 0o644)
		for _, j := range jobs {
			res := &nativeResult{}
			n.results[j.ID] = res
			work := filepath.Join(tmp, "wd-"+j.ID)
			os.MkdirAll(work, 0o755)
			cmd := exec.Command("timeout", "-k", "5", "120", bin, "-test.run", "^TestZZVerifNative$", "-test.count=1", "-test.timeout=110s")
			cmd.Dir = work
			cmd.Env = append(os.Environ(), "VERIF_NATIVE_JOBS="+jf, "VERIF_NATIVE_ONLY="+j.ID)
			outb, err := cmd.CombinedOutput()
			if ee, ok := err.(*exec.ExitError); ok && (ee.ExitCode() == 124 || ee.ExitCode() == 137) {
				res.timedOut = true
			}
			if strings.Contains(string(outb), "panic: test timed out") {
				res.timedOut = true
			}
			in := false
			for _, l := range strings.Split(string(outb), "\n") {
				l = strings.TrimRight(l, "\r")
				if l == "VERIF-JOB "+j.ID+" START" {
					in = true
					continue
				}
				if l == "VERIF-JOB "+j.ID+" END" {
					in = false
				}
				if in && strings.HasPrefix(l, "VERIF-") {
					res.lines = append(res.lines, l)
				}
			}
			if !in && len(res.lines) == 0 && !strings.Contains(string(outb), "VERIF-JOB "+j.ID+" START") && !res.timedOut {
				// the process died (fatal error) before/while running
				tail := string(outb)
				if len(tail) > 400 {
					tail = tail[len(tail)-400:]
				}
				res.lines = append(res.lines, "VERIF-PANIC process died: "+strings.ReplaceAll(tail, "\n", " / "))
			} else if in {
				// no END marker: crashed hard inside the job (e.g. fatal error, os.Exit)
				if !res.timedOut {
					res.lines = append(res.lines, "VERIF-PANIC process died inside job")
				}
			}
			os.RemoveAll(work)
		}
	}
	return nil
}

// buildNative compiles the package's test binary with the harness overlay.
func buildNative(tmp string, files []*harnessFile, pkgDir string) (string, error) {
	ov := map[string]string{}
	zzsrc := filepath.Join(verifDir, "engine/zzverif/zzverif.go")
	ov[filepath.Join(repoDir, "pkg/zzverif/zzverif.go")] = zzsrc
	var names []string
	pkgName := ""
	for _, hf := range files {
		if hf.PkgDir != pkgDir {
			continue
		}
		ov[overlayName(hf)] = hf.Path
		for _, e := range hf.Entries {
			names = append(names, e.Name)
		}
		for _, l := range strings.Split(string(hf.Content), "\n") {
			if strings.HasPrefix(l, "package ") {
				pkgName = strings.TrimSpace(strings.TrimPrefix(l, "package "))
				break
			}
		}
	}
	var sb strings.Builder
	fmt.Fprintf(&sb, "//go:build verif\n\npackage %s\n\nimport (\n\t\"testing\"\n\tzz \"%s/pkg/zzverif\"\n)\n\nfunc TestZZVerifNative(t *testing.T) {\n\tzz.RunNative(map[string]func(){\n", pkgName, modulePath)
	for _, nm := range names {
		fmt.Fprintf(&sb, "\t\t%q: %s,\n", nm, nm)
	}
	sb.WriteString("\t})\n}\n")
	tf := filepath.Join(tmp, "zz_native_"+sanitize(pkgDir)+"_test.go")
	os.WriteFile(tf, []byte(sb.String()), 0o644)
	ov[filepath.Join(repoDir, pkgDir, "zz_verif_native_test.go")] = tf
	ovf := filepath.Join(tmp, "overlay-"+sanitize(pkgDir)+".json")
	data, _ := json.Marshal(map[string]interface{}{"Replace": ov})
	os.WriteFile(ovf, data, 0o644)
	bin := filepath.Join(tmp, "native-"+sanitize(pkgDir)+".test")
	cmd := exec.Command("go", "test", "-tags", "verif", "-vet=off", "-mod=mod", "-overlay", ovf, "-c", "-o", bin, "./"+pkgDir)
	cmd.Dir = repoDir
	cmd.Env = append(os.Environ(), "GOFLAGS=-mod=mod", "GOPROXY=off", "GOSUMDB=off", "GOTOOLCHAIN=local")
	outb, err := cmd.CombinedOutput()
	if err != nil {
		return "", fmt.Errorf("go test -c %s: %v\n%s", pkgDir, err, outb)
	}
	return bin, nil
}

func cmdReplay(args []string) int {
	if len(args) < 2 {
		usage()
	}
	prop, path := args[0], args[1]
	data, err := os.ReadFile(path)
	if err != nil {
		fmt.Fprintln(os.Stderr, err)
		return 2
	}
	var rp struct {
		Tier      string           `json:"tier"`
		PkgDir    string           `json:"pkg_dir"`
		Violation interp.Violation `json:"violation"`
	}
	if err := json.Unmarshal(data, &rp); err != nil {
		fmt.Fprintln(os.Stderr, err)
		return 2
	}
	files, err := harnessFiles(prop)
	if err != nil {
		fmt.Fprintln(os.Stderr, err)
		return 2
	}
	nat := newNative(files, prop, rp.Tier)
	defer nat.cleanup()
	nat.add(rp.PkgDir, nativeJob{ID: "replay", Harness: rp.Violation.Harness, Mode: "replay", Values: rp.Violation.Model, Tier: tierNum(rp.Tier)})
	if err := nat.run(); err != nil {
		fmt.Fprintln(os.Stderr, err)
		return 3
	}
	r := nat.results["replay"]
	for _, l := range r.lines {
		fmt.Println(l)
	}
	if r.timedOut {
		fmt.Println("VERIF-TIMEOUT")
	}
	v := rp.Violation
	for _, l := range r.lines {
		if v.Kind == "assert" && l == "VERIF-ASSERT-FAIL "+v.Label || v.Kind == "panic" && strings.HasPrefix(l, "VERIF-PANIC") {
			fmt.Printf("VIOLATION property=%s replay=%s (reproduced natively)\n", prop, path)
			return 1
		}
	}
	if v.Kind == "hang" && r.timedOut {
		fmt.Printf("VIOLATION property=%s replay=%s (hang reproduced natively)\n", prop, path)
		return 1
	}
	fmt.Println("not reproduced on the current tree")
	return 0
}
