package smt

import "testing"

func TestReassemble(t *testing.T) {
	tb := NewTable()
	v := tb.Var("v", BVSort(64))
	// bytes of v, little endian, reassembled
	var res *Term = tb.BVConst(0, 64)
	for k := 0; k < 8; k++ {
		b := tb.Extract(7, 0, tb.App("bvlshr", v, tb.BVConst(uint64(8*k), 64)))
		res = tb.App("bvor", res, tb.App("bvshl", tb.ZeroExt(56, b), tb.BVConst(uint64(8*k), 64)))
	}
	if res != v {
		t.Fatalf("reassembly not identity: %s %s", res.Op, Body(res))
	}
	// unaligned bit-writer style: write 8 bits of x at bit offset 3
	x := tb.Var("x", BVSort(8))
	hi := tb.App("bvlshr", x, tb.BVConst(3, 8)) // first byte low 5 bits
	lo := tb.App("bvshl", x, tb.BVConst(5, 8))  // second byte high 3 bits
	// reader: byt = (b0 << 3) | (b1 >> 5)
	got := tb.App("bvor", tb.App("bvshl", hi, tb.BVConst(3, 8)), tb.App("bvlshr", lo, tb.BVConst(5, 8)))
	if got != x {
		t.Fatalf("unaligned reassembly not identity: %s", Body(got))
	}
}

// bytes taken with an arithmetic shift (int64 stored byte by byte) reassemble to the value
func TestReassembleArithmeticShift(t *testing.T) {
	tb := NewTable()
	v := tb.Var("s", BVSort(64))
	var res *Term = tb.BVConst(0, 64)
	for k := 0; k < 8; k++ {
		b := tb.Extract(7, 0, tb.App("bvashr", v, tb.BVConst(uint64(8*k), 64)))
		res = tb.App("bvor", res, tb.App("bvshl", tb.ZeroExt(56, b), tb.BVConst(uint64(8*k), 64)))
	}
	if res != v {
		t.Fatalf("reassembly (ashr) not identity: %s %s", res.Op, Body(res))
	}
}
