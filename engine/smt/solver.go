package smt

import (
	"bufio"
	"fmt"
	"io"
	"os"
	"os/exec"
	"strconv"
	"strings"
	"time"
)

type Result int

const (
	Unsat Result = iota
	Sat
	Unknown
)

func (r Result) String() string { return [...]string{"unsat", "sat", "unknown"}[r] }

// proc is one long-lived solver process fed over a pipe.
type proc struct {
	name    string
	argv    []string
	cmd     *exec.Cmd
	in      io.WriteCloser
	out     *bufio.Reader
	emitted map[int]bool // term ids already defined in this process
	nq      int          // queries answered by this process
	dead    bool
	log     io.Writer
}

func (p *proc) start() error {
	p.cmd = exec.Command(p.argv[0], p.argv[1:]...)
	in, err := p.cmd.StdinPipe()
	if err != nil {
		return err
	}
	out, err := p.cmd.StdoutPipe()
	if err != nil {
		return err
	}
	p.cmd.Stderr = p.cmd.Stdout
	p.in = in
	p.out = bufio.NewReaderSize(out, 1<<16)
	p.emitted = map[int]bool{}
	if err := p.cmd.Start(); err != nil {
		return err
	}
	p.send("(set-option :produce-models true)\n")
	return nil
}

func (p *proc) send(s string) {
	if p.log != nil {
		io.WriteString(p.log, s)
	}
	if _, err := io.WriteString(p.in, s); err != nil {
		p.dead = true
	}
}

func (p *proc) kill() {
	if p.cmd != nil && p.cmd.Process != nil {
		p.in.Close()
		p.cmd.Process.Kill()
		p.cmd.Wait()
	}
	p.cmd = nil
}

// readSexp reads one line or one balanced s-expression.
func (p *proc) readSexp() (string, error) {
	var sb strings.Builder
	depth := 0
	started := false
	for {
		line, err := p.out.ReadString('\n')
		if err != nil {
			p.dead = true
			return sb.String(), err
		}
		if !started && strings.TrimSpace(line) == "" {
			continue
		}
		started = true
		sb.WriteString(line)
		inStr := false
		for _, c := range line {
			switch {
			case c == '"':
				inStr = !inStr
			case inStr:
			case c == '(':
				depth++
			case c == ')':
				depth--
			}
		}
		if depth <= 0 {
			return strings.TrimSpace(sb.String()), nil
		}
	}
}

// define makes sure t and its sub-terms are declared/defined in this process.
func (p *proc) define(t *Term, sb *strings.Builder) {
	if t.IsConst() || p.emitted[t.ID] {
		return
	}
	// iterative post-order to survive deep chains
	type fr struct {
		t *Term
		i int
	}
	st := []fr{{t, 0}}
	for len(st) > 0 {
		top := &st[len(st)-1]
		if top.t.IsConst() || p.emitted[top.t.ID] {
			st = st[:len(st)-1]
			continue
		}
		if top.i < len(top.t.Args) {
			a := top.t.Args[top.i]
			top.i++
			if !a.IsConst() && !p.emitted[a.ID] {
				st = append(st, fr{a, 0})
			}
			continue
		}
		x := top.t
		if x.IsVar() {
			fmt.Fprintf(sb, "(declare-const |%s| %s)\n", x.Name, x.S)
		} else {
			fmt.Fprintf(sb, "(define-fun $t%d () %s %s)\n", x.ID, x.S, Body(x))
		}
		p.emitted[x.ID] = true
		st = st[:len(st)-1]
	}
}

// Stats
type Stats struct {
	Queries   int
	BySolver  map[string]int
	Time      time.Duration
	Unknowns  int
	Errors    int
	MaxQueryS float64
}

// Solver is a portfolio of long-lived processes.
type Solver struct {
	procs    []*proc
	St       Stats
	fpMemo   map[int]bool
	LogDir   string
	Timeout  [4]int // ms per stage
	Diff     bool   // cross-check every definite answer with a second back end
	hardMemo map[int]bool
	Debug    bool
	lastVia  string
	seq      int
}

func NewSolver() *Solver {
	s := &Solver{fpMemo: map[int]bool{}}
	s.St.BySolver = map[string]int{}
	s.Timeout = [4]int{5000, 30000, 30000, 20000}
	return s
}

func (s *Solver) getProc(stage int) *proc {
	for len(s.procs) <= stage {
		s.procs = append(s.procs, nil)
	}
	if p := s.procs[stage]; p != nil && !p.dead {
		if p.nq < 1000 || stage == 0 || stage == 3 || stage == 6 {
			return p
		}
		// cvc5 in incremental mode slows down as definitions and lemmas accumulate: recycle it
		p.kill()
		p.dead = true
	}
	var p *proc
	switch stage {
	case 0:
		p = &proc{name: "z3", argv: []string{"z3", "-in", "-t:" + strconv.Itoa(s.Timeout[0])}}
	case 1:
		p = &proc{name: "cvc5-bvint", argv: []string{"cvc5", "--incremental", "--lang=smt2", "--solve-bv-as-int=sum", "--tlimit-per=" + strconv.Itoa(s.Timeout[1])}}
	case 2:
		p = &proc{name: "cvc5", argv: []string{"cvc5", "--incremental", "--lang=smt2", "--tlimit-per=" + strconv.Itoa(s.Timeout[2])}}
	case 3:
		p = &proc{name: "z3-new", argv: []string{"z3-new", "-in", "-t:" + strconv.Itoa(s.Timeout[3])}}
	case 4:
		// second chance with a long limit: time limits are wall-clock, so a loaded machine turns
		// a 4 s query into an "unknown" on every short-limit back end
		p = &proc{name: "z3-new-long", argv: []string{"z3-new", "-in", "-t:" + strconv.Itoa(6*s.Timeout[3])}}
	case 6:
		p = &proc{name: "z3-short", argv: []string{"z3", "-in", "-t:3000"}}
	case 7:
		p = &proc{name: "cvc5-short", argv: []string{"cvc5", "--incremental", "--lang=smt2", "--tlimit-per=3000"}}
	case 8:
		p = &proc{name: "cvc5-bvint-short", argv: []string{"cvc5", "--incremental", "--lang=smt2", "--solve-bv-as-int=sum", "--tlimit-per=3000"}}
	case 5:
		p = &proc{name: "cvc5-long", argv: []string{"cvc5", "--incremental", "--lang=smt2", "--tlimit-per=" + strconv.Itoa(6*s.Timeout[2])}}
	}
	if s.LogDir != "" {
		f, _ := os.Create(fmt.Sprintf("%s/%s.%d.smt2", s.LogDir, p.name, os.Getpid()))
		p.log = f
	}
	if err := p.start(); err != nil {
		p.dead = true
	}
	if stage == 1 || stage == 2 || stage == 5 || stage == 7 || stage == 8 {
		p.send("(set-logic ALL)\n")
	}
	s.procs[stage] = p
	return p
}

func (s *Solver) Close() {
	for _, p := range s.procs {
		if p != nil {
			p.kill()
		}
	}
	s.procs = nil
}

type Model map[string]uint64

// checkOn runs one query on one process.
func (s *Solver) checkOn(p *proc, assertions []*Term, vars []*Term, wantModel bool) (Result, Model, string) {
	if p.dead {
		return Unknown, nil, "dead"
	}
	var sb strings.Builder
	for _, a := range assertions {
		p.define(a, &sb)
	}
	if wantModel {
		for _, v := range vars {
			p.define(v, &sb)
		}
	}
	sb.WriteString("(push 1)\n")
	for _, a := range assertions {
		fmt.Fprintf(&sb, "(assert %s)\n", Ref(a))
	}
	sb.WriteString("(check-sat)\n")
	p.nq++
	p.send(sb.String())
	var ans string
	for {
		line, err := p.readSexp()
		if err != nil {
			p.dead = true
			return Unknown, nil, "solver died: " + line
		}
		if strings.HasPrefix(line, "(error") {
			// drain: the check-sat answer still follows for z3; be conservative
			s.St.Errors++
			p.send("(pop 1)\n")
			// restart process to resynchronise
			p.kill()
			p.dead = true
			return Unknown, nil, line
		}
		if line == "sat" || line == "unsat" || line == "unknown" || strings.HasPrefix(line, "timeout") {
			ans = line
			break
		}
		// other chatter: ignore
	}
	res := Unknown
	switch ans {
	case "sat":
		res = Sat
	case "unsat":
		res = Unsat
	}
	var model Model
	if res == Sat && wantModel && len(vars) > 0 {
		var q strings.Builder
		q.WriteString("(get-value (")
		for _, v := range vars {
			q.WriteString(Ref(v) + " ")
		}
		q.WriteString("))\n")
		p.send(q.String())
		txt, err := p.readSexp()
		if err != nil || strings.HasPrefix(txt, "(error") {
			p.kill()
			p.dead = true
			return Unknown, nil, "get-value failed: " + txt
		}
		model = parseModel(txt, vars)
	}
	p.send("(pop 1)\n")
	return res, model, ""
}

func needsNoFP(s *Solver, assertions []*Term) bool {
	for _, a := range assertions {
		if HasFP(a, s.fpMemo) {
			return false
		}
	}
	return true
}

// Check decides the conjunction of assertions. vars: model variables wanted when sat.
func (s *Solver) Check(assertions []*Term, vars []*Term, wantModel bool) (Result, Model, string) {
	t0 := time.Now()
	defer func() {
		d := time.Since(t0)
		s.St.Time += d
		if d.Seconds() > s.St.MaxQueryS {
			s.St.MaxQueryS = d.Seconds()
		}
		if s.Debug && d.Seconds() > 2 {
			sz := 0
			for _, a := range assertions {
				sz += a.Size()
			}
			fmt.Fprintf(os.Stderr, "slow query %.1fs: %d assertions, %d nodes, via %s\n", d.Seconds(), len(assertions), sz, s.lastVia)
		}
	}()
	s.St.Queries++
	s.lastVia = ""
	// trivial cases
	for _, a := range assertions {
		if a.IsConst() && a.Val == 0 {
			s.St.BySolver["trivial"]++
			return Unsat, nil, "trivial"
		}
	}
	noFP := needsNoFP(s, assertions)
	var lastErr string
	// z3 4.8.12 first (fast on the bulk), then z3 5.1.0 (decides in seconds several large bit-vector
	// queries the old one gives up on), then the two cvc5 configurations
	order := []int{0, 3, 1, 2}
	if noFP && s.hardArith(assertions) {
		// multiply/divide kernels: bit-blasting stalls, the integer encoding decides
		order = []int{1, 0, 3, 2}
	}
	for _, stage := range order {
		if stage == 1 && !noFP {
			continue
		}
		p := s.getProc(stage)
		s.lastVia += p.name + ","
		r, m, e := s.checkOn(p, assertions, vars, wantModel)
		if r != Unknown {
			s.St.BySolver[p.name]++
			if s.Diff {
				// cross-check with a different back end under a short limit (an undecided cross-check is skipped;
				// with the normal limits a thorough run spent hours waiting for cvc5 on multiply kernels)
				alt := 6 // z3, 3 s
				if stage == 0 || stage == 3 {
					alt = 7 // cvc5, 3 s
					if noFP && s.hardArith(assertions) {
						alt = 8 // cvc5 bv-as-int, 3 s
					}
				}
				r2, _, _ := s.checkOn(s.getProc(alt), assertions, nil, false)
				if r2 != Unknown {
					s.St.BySolver["crosscheck-"+s.procs[alt].name]++
				}
				if r2 != Unknown && r2 != r {
					return Unknown, nil, fmt.Sprintf("SOLVER-DISAGREEMENT %s=%v %s=%v", p.name, r, s.procs[alt].name, r2)
				}
			}
			return r, m, p.name
		}
		if e != "" {
			lastErr = e
		}
	}
	// Second chance: fresh processes.  A long-lived incremental solver accumulates state (thousands of
	// definitions, learnt lemmas) and can time out on a query a fresh process decides at once
	// (seen: cvc5 bv-as-int, 0.08 s fresh vs. 30 s limit exceeded after ~8000 earlier queries).
	for _, stage := range []int{1, 0} {
		if stage == 1 && !noFP {
			continue
		}
		if old := s.procs[stage]; old != nil {
			old.kill()
			old.dead = true
		}
		p := s.getProc(stage)
		s.lastVia += p.name + "(fresh),"
		r, m, e := s.checkOn(p, assertions, vars, wantModel)
		if r != Unknown {
			s.St.BySolver[p.name+"-fresh"]++
			return r, m, p.name
		}
		if e != "" {
			lastErr = e
		}
	}
	// Last resort: long limits (time limits are wall-clock: on a loaded machine a 4 s query is
	// an "unknown" on every short-limit back end).
	for _, stage := range []int{4, 5} {
		p := s.getProc(stage)
		s.lastVia += p.name + ","
		r, m, e := s.checkOn(p, assertions, vars, wantModel)
		if r != Unknown {
			s.St.BySolver[p.name]++
			return r, m, p.name
		}
		if e != "" {
			lastErr = e
		}
	}
	s.St.Unknowns++
	if dir := os.Getenv("VERIF_DUMP_UNKNOWN"); dir != "" {
		// standalone copy of the undecided query, for offline probing of back ends
		tmp := &proc{emitted: map[int]bool{}}
		var sb strings.Builder
		for _, a := range assertions {
			tmp.define(a, &sb)
		}
		for _, a := range assertions {
			fmt.Fprintf(&sb, "(assert %s)\n", Ref(a))
		}
		sb.WriteString("(check-sat)\n")
		_ = os.WriteFile(fmt.Sprintf("%s/unknown.%d.%d.smt2", dir, os.Getpid(), s.St.Unknowns), []byte(sb.String()), 0644)
	}
	return Unknown, nil, "unknown on all back ends: " + lastErr
}

func (s *Solver) hardArith(assertions []*Term) bool {
	if s.hardMemo == nil {
		s.hardMemo = map[int]bool{}
	}
	var rec func(t *Term) bool
	rec = func(t *Term) bool {
		if v, ok := s.hardMemo[t.ID]; ok {
			return v
		}
		r := false
		switch t.Op {
		case "bvudiv", "bvsdiv", "bvurem", "bvsrem":
			r = t.S.W >= 32
		case "bvmul":
			r = t.S.W >= 32 && !(t.Args[0].IsConst() && t.Args[0].Val < 1024) && !(t.Args[1].IsConst() && t.Args[1].Val < 1024)
		}
		if !r {
			for _, a := range t.Args {
				if rec(a) {
					r = true
					break
				}
			}
		}
		s.hardMemo[t.ID] = r
		return r
	}
	for _, a := range assertions {
		if rec(a) {
			return true
		}
	}
	return false
}

// parseModel parses ((|a| #x01) (|b| true) (|f| (fp #b0 #b... #b...)) ...)
func parseModel(txt string, vars []*Term) Model {
	m := Model{}
	toks := tokenize(txt)
	// walk: expect ( ( name value ) ... )
	i := 0
	next := func() string {
		if i < len(toks) {
			t := toks[i]
			i++
			return t
		}
		return ""
	}
	var parseVal func() (uint64, bool)
	parseVal = func() (uint64, bool) {
		t := next()
		switch {
		case t == "true":
			return 1, true
		case t == "false":
			return 0, true
		case strings.HasPrefix(t, "#x"):
			v, _ := strconv.ParseUint(t[2:], 16, 64)
			return v, true
		case strings.HasPrefix(t, "#b"):
			v, _ := strconv.ParseUint(t[2:], 2, 64)
			return v, true
		case t == "(":
			// (fp s e m) | (_ bvN w) | (_ +zero 11 53) | (_ NaN ..) | ((_ to_fp ..) #x..)
			h := next()
			if h == "fp" {
				sg, _ := parseVal()
				// exponent & mantissa with widths
				et := toks[i]
				e, _ := parseVal()
				mt := toks[i]
				mm, _ := parseVal()
				ew, mw := bitsOf(et), bitsOf(mt)
				_ = ew
				next() // )
				return sg<<uint(ew+mw) | e<<uint(mw) | mm, true
			}
			if h == "_" {
				k := next()
				if strings.HasPrefix(k, "bv") {
					v, _ := strconv.ParseUint(k[2:], 10, 64)
					next()
					next()
					return v, true
				}
				eb, _ := strconv.Atoi(next())
				sb, _ := strconv.Atoi(next())
				next() // )
				mw := sb - 1
				expAll := (uint64(1)<<uint(eb) - 1) << uint(mw)
				switch k {
				case "+zero":
					return 0, true
				case "-zero":
					return 1 << uint(eb+mw), true
				case "+oo":
					return expAll, true
				case "-oo":
					return 1<<uint(eb+mw) | expAll, true
				case "NaN":
					return expAll | 1<<uint(mw-1), true
				}
				return 0, false
			}
			if h == "(" {
				// ((_ to_fp e s) #x...)
				depth := 1
				for depth > 0 {
					t := next()
					if t == "(" {
						depth++
					} else if t == ")" {
						depth--
					}
				}
				v, ok := parseVal()
				next()
				return v, ok
			}
			// skip unknown
			depth := 1
			for depth > 0 && i < len(toks) {
				t := next()
				if t == "(" {
					depth++
				} else if t == ")" {
					depth--
				}
			}
			return 0, false
		}
		return 0, false
	}
	if next() != "(" {
		return m
	}
	for i < len(toks) {
		t := next()
		if t == ")" {
			break
		}
		if t != "(" {
			continue
		}
		name := next()
		name = strings.Trim(name, "|")
		v, ok := parseVal()
		if ok {
			m[name] = v
		}
		// consume up to closing paren of the pair
		if i < len(toks) && toks[i] == ")" {
			i++
		}
	}
	return m
}

func bitsOf(tok string) int {
	if strings.HasPrefix(tok, "#x") {
		return 4 * (len(tok) - 2)
	}
	if strings.HasPrefix(tok, "#b") {
		return len(tok) - 2
	}
	return 0
}

func tokenize(s string) []string {
	var toks []string
	i := 0
	for i < len(s) {
		c := s[i]
		switch {
		case c == '(' || c == ')':
			toks = append(toks, string(c))
			i++
		case c == ' ' || c == '\n' || c == '\t' || c == '\r':
			i++
		case c == '|':
			j := i + 1
			for j < len(s) && s[j] != '|' {
				j++
			}
			toks = append(toks, s[i:j+1])
			i = j + 1
		default:
			j := i
			for j < len(s) && !strings.ContainsRune("() \n\t\r", rune(s[j])) {
				j++
			}
			toks = append(toks, s[i:j])
			i = j
		}
	}
	return toks
}
