package smt

// Bit-provenance normal form: shifts by constants, masks, ors, extracts,
// concats and zero-extensions are rewritten into concatenations of slices of
// "atoms", so that byte-wise disassembly followed by reassembly of a value
// becomes syntactically the value itself.  This is a sound term rewriting
// (every rule is a bit-vector identity); it only makes queries smaller.

type piece struct {
	t      *Term // nil = zero bits
	hi, lo int   // slice of t (for nil: width = hi-lo+1)
}

func (p piece) w() int { return p.hi - p.lo + 1 }

func zeroPiece(w int) piece { return piece{nil, w - 1, 0} }

// slicePieces returns bits hi..lo (inclusive) of the value described by ps (MSB first).
func slicePieces(ps []piece, hi, lo int) []piece {
	total := 0
	for _, p := range ps {
		total += p.w()
	}
	var out []piece
	pos := total // bit index just above current piece
	for _, p := range ps {
		top := pos - 1
		bot := pos - p.w()
		pos = bot
		// overlap of [top..bot] with [hi..lo]
		h, l := top, bot
		if hi < h {
			h = hi
		}
		if lo > l {
			l = lo
		}
		if h < l {
			continue
		}
		if p.t == nil {
			out = append(out, zeroPiece(h-l+1))
		} else {
			// bit k of the value corresponds to bit p.lo + (k-bot) of p.t
			out = append(out, piece{p.t, p.lo + (h - bot), p.lo + (l - bot)})
		}
	}
	return out
}

func (tb *Table) pieces(t *Term) []piece {
	if tb.pmemo == nil {
		tb.pmemo = map[int][]piece{}
	}
	if ps, ok := tb.pmemo[t.ID]; ok {
		return ps
	}
	ps := tb.pieces0(t)
	if len(ps) > 24 {
		ps = []piece{{t, t.S.W - 1, 0}}
	}
	tb.pmemo[t.ID] = ps
	return ps
}

func constRuns(v uint64, w int) [][3]int { // (hi, lo, bit)
	var runs [][3]int
	i := w - 1
	for i >= 0 {
		b := int(v>>uint(i)) & 1
		j := i
		for j-1 >= 0 && int(v>>uint(j-1))&1 == b {
			j--
		}
		runs = append(runs, [3]int{i, j, b})
		i = j - 1
	}
	return runs
}

func (tb *Table) pieces0(t *Term) []piece {
	w := t.S.W
	atom := []piece{{t, w - 1, 0}}
	if t.S.K != BV {
		return atom
	}
	switch t.Op {
	case "const":
		if t.Val == 0 {
			return []piece{zeroPiece(w)}
		}
		runs := constRuns(t.Val, w)
		if len(runs) > 6 {
			return atom
		}
		var out []piece
		for _, r := range runs {
			if r[2] == 0 {
				out = append(out, zeroPiece(r[0]-r[1]+1))
			} else {
				out = append(out, piece{t, r[0], r[1]})
			}
		}
		return out
	case "extract":
		return slicePieces(tb.pieces(t.Args[0]), t.I, t.J)
	case "concat":
		return append(append([]piece{}, tb.pieces(t.Args[0])...), tb.pieces(t.Args[1])...)
	case "zero_extend":
		return append([]piece{zeroPiece(t.I)}, tb.pieces(t.Args[0])...)
	case "bvshl":
		if k := t.Args[1]; k.IsConst() {
			n := int(k.Val)
			if n >= w {
				return []piece{zeroPiece(w)}
			}
			if n == 0 {
				return tb.pieces(t.Args[0])
			}
			return append(slicePieces(tb.pieces(t.Args[0]), w-1-n, 0), zeroPiece(n))
		}
	case "bvlshr":
		if k := t.Args[1]; k.IsConst() {
			n := int(k.Val)
			if n >= w {
				return []piece{zeroPiece(w)}
			}
			if n == 0 {
				return tb.pieces(t.Args[0])
			}
			return append([]piece{zeroPiece(n)}, slicePieces(tb.pieces(t.Args[0]), w-1, n)...)
		}
	case "bvashr":
		// the low w-n bits are bits w-1..n of the operand; the n sign copies stay a slice of the term itself
		if k := t.Args[1]; k.IsConst() {
			n := int(k.Val)
			if n == 0 {
				return tb.pieces(t.Args[0])
			}
			if n < w {
				return append([]piece{{t, w - 1, w - n}}, slicePieces(tb.pieces(t.Args[0]), w-1, n)...)
			}
		}
	case "bvand":
		a, b := t.Args[0], t.Args[1]
		if a.IsConst() {
			a, b = b, a
		}
		if b.IsConst() {
			runs := constRuns(b.Val, w)
			if len(runs) > 6 {
				return atom
			}
			ps := tb.pieces(a)
			var out []piece
			for _, r := range runs {
				if r[2] == 0 {
					out = append(out, zeroPiece(r[0]-r[1]+1))
				} else {
					out = append(out, slicePieces(ps, r[0], r[1])...)
				}
			}
			return out
		}
	case "bvor", "bvxor", "bvadd":
		pa, pb := tb.pieces(t.Args[0]), tb.pieces(t.Args[1])
		// cut both at the union of their boundaries; every segment must be zero on one side
		cuts := map[int]bool{}
		for _, ps := range [][]piece{pa, pb} {
			pos := w
			for _, p := range ps {
				pos -= p.w()
				cuts[pos] = true
			}
		}
		var out []piece
		hi := w - 1
		for hi >= 0 {
			lo := hi
			for lo > 0 && !cuts[lo] {
				lo--
			}
			sa := slicePieces(pa, hi, lo)
			sb := slicePieces(pb, hi, lo)
			if len(sa) != 1 || len(sb) != 1 {
				return atom
			}
			switch {
			case sa[0].t == nil:
				out = append(out, sb[0])
			case sb[0].t == nil:
				out = append(out, sa[0])
			default:
				return atom
			}
			hi = lo - 1
		}
		return out
	}
	return atom
}

// rebuild constructs a term from pieces, merging adjacent compatible slices.
func (tb *Table) rebuild(ps []piece) *Term {
	var merged []piece
	for _, p := range ps {
		if p.w() <= 0 {
			continue
		}
		if n := len(merged); n > 0 {
			q := &merged[n-1]
			if q.t == nil && p.t == nil {
				q.hi += p.w()
				continue
			}
			if q.t != nil && q.t == p.t && q.lo == p.hi+1 {
				q.lo = p.lo
				continue
			}
		}
		merged = append(merged, p)
	}
	var res *Term
	for _, p := range merged {
		var x *Term
		switch {
		case p.t == nil:
			x = tb.BVConst(0, p.w())
		case p.t.IsConst():
			x = tb.BVConst(p.t.Val>>uint(p.lo), p.w())
		case p.lo == 0 && p.hi == p.t.S.W-1:
			x = p.t
		default:
			x = tb.mk("extract", BVSort(p.w()), p.hi, p.lo, p.t)
		}
		if res == nil {
			res = x
		} else if res.IsConst() && res.Val == 0 {
			if x.Op == "zero_extend" {
				res = tb.mk("zero_extend", BVSort(res.S.W+x.S.W), res.S.W+x.I, 0, x.Args[0])
			} else if x.IsConst() {
				res = tb.BVConst(x.Val, res.S.W+x.S.W)
			} else {
				res = tb.mk("zero_extend", BVSort(res.S.W+x.S.W), res.S.W, 0, x)
			}
		} else if res.IsConst() && x.IsConst() && res.S.W+x.S.W <= 64 {
			res = tb.BVConst(res.Val<<uint(x.S.W)|x.Val, res.S.W+x.S.W)
		} else {
			res = tb.mk("concat", BVSort(res.S.W+x.S.W), 0, 0, res, x)
		}
	}
	return res
}

// normalize returns the slice normal form of t when it is simpler.
func (tb *Table) normalize(t *Term) *Term {
	if t.S.K != BV || t.IsConst() || t.IsVar() {
		return t
	}
	ps := tb.pieces(t)
	if len(ps) == 1 && ps[0].t == t {
		return t
	}
	r := tb.rebuild(ps)
	if r == nil || r.S != t.S {
		return t
	}
	if r.size <= t.size {
		return r
	}
	return t
}

// upperBound returns 2^k-1 where k is the number of bits below the known
// leading zero bits of t (from the slice normal form).
func (tb *Table) upperBound(t *Term) (uint64, bool) {
	if t.S.K != BV || t.S.W > 64 {
		return 0, false
	}
	if t.IsConst() {
		return t.Val, true
	}
	if t.Op == "ite" {
		a, ok1 := tb.upperBound(t.Args[1])
		b, ok2 := tb.upperBound(t.Args[2])
		if ok1 && ok2 {
			if a > b {
				return a, true
			}
			return b, true
		}
		return 0, false
	}
	ps := tb.pieces(t)
	lead := 0
	for _, p := range ps {
		if p.t != nil {
			break
		}
		lead += p.w()
	}
	if lead == 0 {
		return 0, false
	}
	k := t.S.W - lead
	if k >= 64 {
		return 0, false
	}
	return (uint64(1) << uint(k)) - 1, true
}
