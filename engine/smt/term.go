// Package smt: hash-consed SMT-LIB2 terms (bit-vectors, booleans, IEEE floats)
// with light constant folding, and their serialisation.
package smt

import (
	"fmt"
	"math"
	"math/bits"
	"strings"
)

type SortKind uint8

const (
	Bool SortKind = iota
	BV
	FP // W = 32 or 64
)

type Sort struct {
	K SortKind
	W int
}

func (s Sort) String() string {
	switch s.K {
	case Bool:
		return "Bool"
	case BV:
		return fmt.Sprintf("(_ BitVec %d)", s.W)
	case FP:
		if s.W == 32 {
			return "(_ FloatingPoint 8 24)"
		}
		return "(_ FloatingPoint 11 53)"
	}
	return "?"
}

var BoolSort = Sort{Bool, 0}

func BVSort(w int) Sort { return Sort{BV, w} }
func FPSort(w int) Sort { return Sort{FP, w} }

// Term is an immutable hash-consed term.
type Term struct {
	ID   int
	Op   string // "var","const", or SMT op name
	Args []*Term
	S    Sort
	Val  uint64 // const payload (BV value, Bool 0/1, FP bits)
	Name string // var name
	I, J int    // indices for extract / extend / to_sbv width
	size int
}

func (t *Term) IsConst() bool { return t.Op == "const" }
func (t *Term) IsVar() bool   { return t.Op == "var" }
func (t *Term) Size() int     { return t.size }

// Table is a per-worker hash-consing table.
type Table struct {
	m     map[string]*Term
	terms []*Term
	Vars  []*Term
	vars  map[string]*Term
	pmemo map[int][]piece
}

func NewTable() *Table {
	return &Table{m: map[string]*Term{}, vars: map[string]*Term{}}
}

func (tb *Table) intern(t *Term) *Term {
	var sb strings.Builder
	sb.WriteString(t.Op)
	fmt.Fprintf(&sb, "|%d.%d|%d|%s|%d.%d", t.S.K, t.S.W, t.Val, t.Name, t.I, t.J)
	for _, a := range t.Args {
		fmt.Fprintf(&sb, "|%d", a.ID)
	}
	k := sb.String()
	if o, ok := tb.m[k]; ok {
		return o
	}
	t.ID = len(tb.terms)
	t.size = 1
	for _, a := range t.Args {
		t.size += a.size
		if t.size > 1<<30 {
			t.size = 1 << 30
		}
	}
	tb.terms = append(tb.terms, t)
	tb.m[k] = t
	return t
}

func (tb *Table) NumTerms() int { return len(tb.terms) }

func (tb *Table) Var(name string, s Sort) *Term {
	if v, ok := tb.vars[name]; ok {
		if v.S != s {
			panic(fmt.Sprintf("smt: variable %q redeclared with different sort %v vs %v", name, v.S, s))
		}
		return v
	}
	v := tb.intern(&Term{Op: "var", Name: name, S: s})
	tb.vars[name] = v
	tb.Vars = append(tb.Vars, v)
	return v
}

func (tb *Table) LookupVar(name string) *Term { return tb.vars[name] }

func mask(w int) uint64 {
	if w >= 64 {
		return ^uint64(0)
	}
	return (uint64(1) << uint(w)) - 1
}

func (tb *Table) BVConst(v uint64, w int) *Term {
	return tb.intern(&Term{Op: "const", S: BVSort(w), Val: v & mask(w)})
}
func (tb *Table) BoolConst(b bool) *Term {
	v := uint64(0)
	if b {
		v = 1
	}
	return tb.intern(&Term{Op: "const", S: BoolSort, Val: v})
}
func (tb *Table) True() *Term  { return tb.BoolConst(true) }
func (tb *Table) False() *Term { return tb.BoolConst(false) }
func (tb *Table) FPConst64(f float64) *Term {
	return tb.intern(&Term{Op: "const", S: FPSort(64), Val: math.Float64bits(f)})
}
func (tb *Table) FPConst32(f float32) *Term {
	return tb.intern(&Term{Op: "const", S: FPSort(32), Val: uint64(math.Float32bits(f))})
}

func sext(v uint64, w int) int64 {
	if w >= 64 {
		return int64(v)
	}
	sh := uint(64 - w)
	return int64(v<<sh) >> sh
}

// App builds an application with folding. Sort is inferred.
func (tb *Table) App(op string, args ...*Term) *Term {
	return tb.AppI(op, 0, 0, args...)
}

func (tb *Table) mk(op string, s Sort, i, j int, args ...*Term) *Term {
	return tb.intern(&Term{Op: op, S: s, I: i, J: j, Args: args})
}

func allConst(args []*Term) bool {
	for _, a := range args {
		if !a.IsConst() {
			return false
		}
	}
	return true
}

func (tb *Table) Not(a *Term) *Term {
	if a.IsConst() {
		return tb.BoolConst(a.Val == 0)
	}
	if a.Op == "not" {
		return a.Args[0]
	}
	return tb.mk("not", BoolSort, 0, 0, a)
}

func (tb *Table) And(args ...*Term) *Term {
	var out []*Term
	for _, a := range args {
		if a.IsConst() {
			if a.Val == 0 {
				return tb.False()
			}
			continue
		}
		dup := false
		for _, o := range out {
			if o == a {
				dup = true
			}
		}
		if !dup {
			out = append(out, a)
		}
	}
	switch len(out) {
	case 0:
		return tb.True()
	case 1:
		return out[0]
	}
	return tb.mk("and", BoolSort, 0, 0, out...)
}

func (tb *Table) Or(args ...*Term) *Term {
	var out []*Term
	for _, a := range args {
		if a.IsConst() {
			if a.Val != 0 {
				return tb.True()
			}
			continue
		}
		dup := false
		for _, o := range out {
			if o == a {
				dup = true
			}
		}
		if !dup {
			out = append(out, a)
		}
	}
	switch len(out) {
	case 0:
		return tb.False()
	case 1:
		return out[0]
	}
	return tb.mk("or", BoolSort, 0, 0, out...)
}

func (tb *Table) Ite(c, a, b *Term) *Term {
	if c.IsConst() {
		if c.Val != 0 {
			return a
		}
		return b
	}
	if a == b {
		return a
	}
	if a.S != b.S {
		panic(fmt.Sprintf("smt: ite sort mismatch %v vs %v", a.S, b.S))
	}
	if a.S.K == Bool {
		if a.IsConst() && b.IsConst() {
			if a.Val != 0 {
				return c
			}
			return tb.Not(c)
		}
	}
	return tb.mk("ite", a.S, 0, 0, c, a, b)
}

func (tb *Table) Eq(a, b *Term) *Term {
	if a == b && a.S.K != FP {
		return tb.True()
	}
	if a.S != b.S {
		panic(fmt.Sprintf("smt: = sort mismatch %v vs %v (%s, %s)", a.S, b.S, a.Op, b.Op))
	}
	if a.IsConst() && b.IsConst() && a.S.K != FP {
		return tb.BoolConst(a.Val == b.Val)
	}
	if a.S.K == Bool {
		if a.IsConst() {
			if a.Val != 0 {
				return b
			}
			return tb.Not(b)
		}
		if b.IsConst() {
			if b.Val != 0 {
				return a
			}
			return tb.Not(a)
		}
	}
	if a.S.K == FP {
		// Go == on floats is IEEE equality
		return tb.AppI("fp.eq", 0, 0, a, b)
	}
	if a.ID > b.ID {
		a, b = b, a
	}
	return tb.mk("=", BoolSort, 0, 0, a, b)
}

// Extract bits hi..lo.
func (tb *Table) Extract(hi, lo int, a *Term) *Term {
	if lo == 0 && hi == a.S.W-1 {
		return a
	}
	if a.IsConst() {
		return tb.BVConst(a.Val>>uint(lo), hi-lo+1)
	}
	if a.Op == "extract" {
		return tb.Extract(hi+a.J, lo+a.J, a.Args[0])
	}
	if (a.Op == "zero_extend" || a.Op == "sign_extend") && hi < a.Args[0].S.W {
		return tb.Extract(hi, lo, a.Args[0])
	}
	if a.Op == "zero_extend" && lo >= a.Args[0].S.W {
		return tb.BVConst(0, hi-lo+1)
	}
	if a.Op == "concat" {
		lw := a.Args[1].S.W
		if hi < lw {
			return tb.Extract(hi, lo, a.Args[1])
		}
		if lo >= lw {
			return tb.Extract(hi-lw, lo-lw, a.Args[0])
		}
	}
	return tb.normalize(tb.mk("extract", BVSort(hi-lo+1), hi, lo, a))
}

func (tb *Table) ZeroExt(n int, a *Term) *Term {
	if n == 0 {
		return a
	}
	if a.IsConst() {
		return tb.BVConst(a.Val, a.S.W+n)
	}
	if a.Op == "zero_extend" {
		return tb.ZeroExt(n+a.I, a.Args[0])
	}
	return tb.mk("zero_extend", BVSort(a.S.W+n), n, 0, a)
}

func (tb *Table) SignExt(n int, a *Term) *Term {
	if n == 0 {
		return a
	}
	if a.IsConst() {
		return tb.BVConst(uint64(sext(a.Val, a.S.W)), a.S.W+n)
	}
	if a.Op == "zero_extend" {
		return tb.ZeroExt(n+a.I, a.Args[0])
	}
	return tb.mk("sign_extend", BVSort(a.S.W+n), n, 0, a)
}

func (tb *Table) Concat(hi, lo *Term) *Term {
	if hi.IsConst() && lo.IsConst() && hi.S.W+lo.S.W <= 64 {
		return tb.BVConst(hi.Val<<uint(lo.S.W)|lo.Val, hi.S.W+lo.S.W)
	}
	if hi.IsConst() && hi.Val == 0 {
		return tb.ZeroExt(hi.S.W, lo)
	}
	return tb.normalize(tb.mk("concat", BVSort(hi.S.W+lo.S.W), 0, 0, hi, lo))
}

// AppI is the generic constructor.  i,j are indices for indexed ops.
func (tb *Table) AppI(op string, i, j int, args ...*Term) *Term {
	switch op {
	case "not":
		return tb.Not(args[0])
	case "and":
		return tb.And(args...)
	case "or":
		return tb.Or(args...)
	case "ite":
		return tb.Ite(args[0], args[1], args[2])
	case "=":
		return tb.Eq(args[0], args[1])
	case "extract":
		return tb.Extract(i, j, args[0])
	case "zero_extend":
		return tb.ZeroExt(i, args[0])
	case "sign_extend":
		return tb.SignExt(i, args[0])
	case "concat":
		return tb.Concat(args[0], args[1])
	case "=>":
		return tb.Or(tb.Not(args[0]), args[1])
	}
	a := args[0]
	switch op {
	case "bvadd", "bvsub", "bvmul", "bvudiv", "bvsdiv", "bvurem", "bvsrem", "bvand", "bvor", "bvxor", "bvshl", "bvlshr", "bvashr":
		b := args[1]
		if a.S != b.S {
			panic(fmt.Sprintf("smt: %s sort mismatch %v vs %v", op, a.S, b.S))
		}
		w := a.S.W
		if a.IsConst() && b.IsConst() {
			x, y := a.Val, b.Val
			var r uint64
			ok := true
			switch op {
			case "bvadd":
				r = x + y
			case "bvsub":
				r = x - y
			case "bvmul":
				r = x * y
			case "bvudiv":
				if y == 0 {
					r = mask(w)
				} else {
					r = x / y
				}
			case "bvurem":
				if y == 0 {
					r = x
				} else {
					r = x % y
				}
			case "bvsdiv":
				sx, sy := sext(x, w), sext(y, w)
				if sy == 0 {
					if sx < 0 {
						r = 1
					} else {
						r = mask(w)
					}
				} else if sy == -1 {
					r = uint64(-sx)
				} else {
					r = uint64(sx / sy)
				}
			case "bvsrem":
				sx, sy := sext(x, w), sext(y, w)
				if sy == 0 {
					r = x
				} else if sy == -1 {
					r = 0
				} else {
					r = uint64(sx % sy)
				}
			case "bvand":
				r = x & y
			case "bvor":
				r = x | y
			case "bvxor":
				r = x ^ y
			case "bvshl":
				if y >= uint64(w) {
					r = 0
				} else {
					r = x << y
				}
			case "bvlshr":
				if y >= uint64(w) {
					r = 0
				} else {
					r = x >> y
				}
			case "bvashr":
				sx := sext(x, w)
				if y >= uint64(w) {
					y = uint64(w - 1)
				}
				r = uint64(sx >> y)
			default:
				ok = false
			}
			if ok {
				return tb.BVConst(r, w)
			}
		}
		// identities
		switch op {
		case "bvadd", "bvor", "bvxor":
			if a.IsConst() && a.Val == 0 {
				return b
			}
			if b.IsConst() && b.Val == 0 {
				return a
			}
		case "bvsub", "bvshl", "bvlshr", "bvashr":
			if b.IsConst() && b.Val == 0 {
				return a
			}
		case "bvand":
			if a.IsConst() && a.Val == 0 || b.IsConst() && b.Val == 0 {
				return tb.BVConst(0, w)
			}
			if a.IsConst() && a.Val == mask(w) {
				return b
			}
			if b.IsConst() && b.Val == mask(w) {
				return a
			}
		case "bvmul":
			if a.IsConst() && a.Val == 1 {
				return b
			}
			if b.IsConst() && b.Val == 1 {
				return a
			}
			if a.IsConst() && a.Val == 0 || b.IsConst() && b.Val == 0 {
				return tb.BVConst(0, w)
			}
		}
		if (op == "bvshl" || op == "bvlshr") && b.IsConst() && b.Val >= uint64(w) {
			return tb.BVConst(0, w)
		}
		r := tb.mk(op, a.S, 0, 0, a, b)
		switch op {
		case "bvshl", "bvlshr":
			if b.IsConst() {
				return tb.normalize(r)
			}
		case "bvand":
			if a.IsConst() || b.IsConst() {
				return tb.normalize(r)
			}
		case "bvor", "bvxor", "bvadd":
			return tb.normalize(r)
		}
		return r
	case "bvnot":
		if a.IsConst() {
			return tb.BVConst(^a.Val, a.S.W)
		}
		return tb.mk(op, a.S, 0, 0, a)
	case "bvneg":
		if a.IsConst() {
			return tb.BVConst(-a.Val, a.S.W)
		}
		return tb.mk(op, a.S, 0, 0, a)
	case "bvult", "bvule", "bvslt", "bvsle", "bvugt", "bvuge", "bvsgt", "bvsge":
		b := args[1]
		if a.S != b.S {
			panic(fmt.Sprintf("smt: %s sort mismatch %v vs %v", op, a.S, b.S))
		}
		switch op {
		case "bvugt":
			return tb.AppI("bvult", 0, 0, b, a)
		case "bvuge":
			return tb.AppI("bvule", 0, 0, b, a)
		case "bvsgt":
			return tb.AppI("bvslt", 0, 0, b, a)
		case "bvsge":
			return tb.AppI("bvsle", 0, 0, b, a)
		}
		if a.IsConst() && b.IsConst() {
			w := a.S.W
			switch op {
			case "bvult":
				return tb.BoolConst(a.Val < b.Val)
			case "bvule":
				return tb.BoolConst(a.Val <= b.Val)
			case "bvslt":
				return tb.BoolConst(sext(a.Val, w) < sext(b.Val, w))
			case "bvsle":
				return tb.BoolConst(sext(a.Val, w) <= sext(b.Val, w))
			}
		}
		if a == b {
			return tb.BoolConst(op == "bvule" || op == "bvsle")
		}
		// value-range shortcut from known leading zero bits (a < 2^k <= b)
		if (op == "bvult" || op == "bvule") && b.IsConst() && a.S.W <= 64 {
			if ub, ok := tb.upperBound(a); ok {
				if (op == "bvult" && ub < b.Val) || (op == "bvule" && ub <= b.Val) {
					return tb.True()
				}
			}
		}
		if (op == "bvult" || op == "bvule") && a.IsConst() && b.S.W <= 64 {
			if ub, ok := tb.upperBound(b); ok {
				if (op == "bvult" && a.Val >= ub) || (op == "bvule" && a.Val > ub) {
					return tb.False()
				}
			}
		}
		return tb.mk(op, BoolSort, 0, 0, a, b)
	// ---- popcount-like helpers are built by the interpreter from primitives
	// ---- floating point
	case "fp.add", "fp.sub", "fp.mul", "fp.div":
		b := args[1]
		if a.IsConst() && b.IsConst() && a.S.W == 64 {
			x, y := math.Float64frombits(a.Val), math.Float64frombits(b.Val)
			var r float64
			switch op {
			case "fp.add":
				r = x + y
			case "fp.sub":
				r = x - y
			case "fp.mul":
				r = x * y
			case "fp.div":
				r = x / y
			}
			if r == r { // avoid NaN payload questions
				return tb.FPConst64(r)
			}
		}
		return tb.mk(op, a.S, 0, 0, a, b)
	case "fp.neg", "fp.abs", "fp.sqrt", "fp.floor", "fp.ceil", "fp.trunc", "fp.rne", "fp.rna":
		if a.IsConst() && a.S.W == 64 {
			x := math.Float64frombits(a.Val)
			if x == x {
				switch op {
				case "fp.neg":
					return tb.FPConst64(-x)
				case "fp.abs":
					return tb.FPConst64(math.Abs(x))
				case "fp.floor":
					return tb.FPConst64(math.Floor(x))
				case "fp.ceil":
					return tb.FPConst64(math.Ceil(x))
				case "fp.trunc":
					return tb.FPConst64(math.Trunc(x))
				case "fp.rna":
					return tb.FPConst64(math.Round(x))
				}
			}
		}
		return tb.mk(op, a.S, 0, 0, a)
	case "fp.min", "fp.max":
		return tb.mk(op, a.S, 0, 0, a, args[1])
	case "fp.lt", "fp.leq", "fp.eq", "fp.gt", "fp.geq":
		b := args[1]
		if a.S != b.S {
			panic(fmt.Sprintf("smt: %s sort mismatch", op))
		}
		if a.IsConst() && b.IsConst() && a.S.W == 64 {
			x, y := math.Float64frombits(a.Val), math.Float64frombits(b.Val)
			switch op {
			case "fp.lt":
				return tb.BoolConst(x < y)
			case "fp.leq":
				return tb.BoolConst(x <= y)
			case "fp.eq":
				return tb.BoolConst(x == y)
			case "fp.gt":
				return tb.BoolConst(x > y)
			case "fp.geq":
				return tb.BoolConst(x >= y)
			}
		}
		return tb.mk(op, BoolSort, 0, 0, a, b)
	case "fp.isNaN", "fp.isInfinite", "fp.isNegative", "fp.isZero":
		if a.IsConst() && a.S.W == 64 {
			x := math.Float64frombits(a.Val)
			switch op {
			case "fp.isNaN":
				return tb.BoolConst(x != x)
			case "fp.isInfinite":
				return tb.BoolConst(math.IsInf(x, 0))
			case "fp.isZero":
				return tb.BoolConst(x == 0)
			}
		}
		return tb.mk(op, BoolSort, 0, 0, a)
	case "bv2fp": // reinterpret bits, i = fp width
		if a.IsConst() {
			return tb.intern(&Term{Op: "const", S: FPSort(i), Val: a.Val})
		}
		if a.Op == "fp2bv" {
			return a.Args[0]
		}
		return tb.mk(op, FPSort(i), i, 0, a)
	case "sbv2fp", "ubv2fp": // numeric conversion RNE, i = fp width
		if a.IsConst() && i == 64 {
			if op == "sbv2fp" {
				return tb.FPConst64(float64(sext(a.Val, a.S.W)))
			}
			return tb.FPConst64(float64(a.Val))
		}
		return tb.mk(op, FPSort(i), i, 0, a)
	case "fp2sbv", "fp2ubv": // RTZ, i = bv width
		if a.IsConst() && a.S.W == 64 {
			x := math.Float64frombits(a.Val)
			if op == "fp2sbv" && x == x && x > -9.2e18 && x < 9.2e18 {
				v := int64(x)
				if i == 64 || (v >= -(1<<uint(i-1)) && v < (1<<uint(i-1))) {
					return tb.BVConst(uint64(v), i)
				}
			}
			if op == "fp2ubv" && x == x && x >= 0 && x < 1.8e19 {
				v := uint64(x)
				if i == 64 || v < (1<<uint(i)) {
					return tb.BVConst(v, i)
				}
			}
		}
		return tb.mk(op, BVSort(i), i, 0, a)
	case "fp2fp": // i = target width
		if a.S.W == i {
			return a
		}
		if a.IsConst() {
			if i == 64 {
				return tb.FPConst64(float64(math.Float32frombits(uint32(a.Val))))
			}
			x := math.Float64frombits(a.Val)
			if x == x {
				return tb.FPConst32(float32(x))
			}
		}
		return tb.mk(op, FPSort(i), i, 0, a)
	}
	panic("smt: unknown op " + op)
}

// Popcount etc helper: number of leading zeros as a term of width a.S.W.
func (tb *Table) Clz(a *Term) *Term {
	w := a.S.W
	if a.IsConst() {
		return tb.BVConst(uint64(bits.LeadingZeros64(a.Val)-(64-w)), w)
	}
	// ite chain from the top bit
	res := tb.BVConst(uint64(w), w)
	for i := 0; i < w; i++ {
		// bit i set => clz = w-1-i ; process from low to high so highest wins
		bit := tb.Extract(i, i, a)
		res = tb.Ite(tb.Eq(bit, tb.BVConst(1, 1)), tb.BVConst(uint64(w-1-i), w), res)
	}
	return res
}

func (tb *Table) Ctz(a *Term) *Term {
	w := a.S.W
	if a.IsConst() {
		if a.Val == 0 {
			return tb.BVConst(uint64(w), w)
		}
		return tb.BVConst(uint64(bits.TrailingZeros64(a.Val)), w)
	}
	res := tb.BVConst(uint64(w), w)
	for i := w - 1; i >= 0; i-- {
		bit := tb.Extract(i, i, a)
		res = tb.Ite(tb.Eq(bit, tb.BVConst(1, 1)), tb.BVConst(uint64(i), w), res)
	}
	return res
}

// ---------------------------------------------------------------- printing

func constStr(t *Term) string {
	switch t.S.K {
	case Bool:
		if t.Val != 0 {
			return "true"
		}
		return "false"
	case BV:
		if t.S.W%4 == 0 {
			return fmt.Sprintf("#x%0*x", t.S.W/4, t.Val)
		}
		return fmt.Sprintf("#b%0*b", t.S.W, t.Val)
	case FP:
		if t.S.W == 32 {
			return fmt.Sprintf("((_ to_fp 8 24) #x%08x)", t.Val)
		}
		return fmt.Sprintf("((_ to_fp 11 53) #x%016x)", t.Val)
	}
	return "?"
}

// Ref returns the token by which the term is referenced in solver input.
func Ref(t *Term) string {
	switch t.Op {
	case "const":
		return constStr(t)
	case "var":
		return "|" + t.Name + "|"
	}
	return fmt.Sprintf("$t%d", t.ID)
}

func fpTo(w int) string {
	if w == 32 {
		return "(_ to_fp 8 24)"
	}
	return "(_ to_fp 11 53)"
}

// Body returns the SMT-LIB expression of a non-leaf term with args by reference.
func Body(t *Term) string {
	var sb strings.Builder
	a := func(i int) string { return Ref(t.Args[i]) }
	switch t.Op {
	case "extract":
		fmt.Fprintf(&sb, "((_ extract %d %d) %s)", t.I, t.J, a(0))
	case "zero_extend", "sign_extend":
		fmt.Fprintf(&sb, "((_ %s %d) %s)", t.Op, t.I, a(0))
	case "fp.add", "fp.sub", "fp.mul", "fp.div":
		fmt.Fprintf(&sb, "(%s RNE %s %s)", t.Op, a(0), a(1))
	case "fp.sqrt":
		fmt.Fprintf(&sb, "(fp.sqrt RNE %s)", a(0))
	case "fp.floor":
		fmt.Fprintf(&sb, "(fp.roundToIntegral RTN %s)", a(0))
	case "fp.ceil":
		fmt.Fprintf(&sb, "(fp.roundToIntegral RTP %s)", a(0))
	case "fp.trunc":
		fmt.Fprintf(&sb, "(fp.roundToIntegral RTZ %s)", a(0))
	case "fp.rne":
		fmt.Fprintf(&sb, "(fp.roundToIntegral RNE %s)", a(0))
	case "fp.rna":
		fmt.Fprintf(&sb, "(fp.roundToIntegral RNA %s)", a(0))
	case "bv2fp":
		fmt.Fprintf(&sb, "(%s %s)", fpTo(t.I), a(0))
	case "sbv2fp":
		fmt.Fprintf(&sb, "(%s RNE %s)", fpTo(t.I), a(0))
	case "ubv2fp":
		if t.I == 32 {
			fmt.Fprintf(&sb, "((_ to_fp_unsigned 8 24) RNE %s)", a(0))
		} else {
			fmt.Fprintf(&sb, "((_ to_fp_unsigned 11 53) RNE %s)", a(0))
		}
	case "fp2sbv":
		fmt.Fprintf(&sb, "((_ fp.to_sbv %d) RTZ %s)", t.I, a(0))
	case "fp2ubv":
		fmt.Fprintf(&sb, "((_ fp.to_ubv %d) RTZ %s)", t.I, a(0))
	case "fp2fp":
		fmt.Fprintf(&sb, "(%s RNE %s)", fpTo(t.I), a(0))
	default:
		sb.WriteString("(" + t.Op)
		for i := range t.Args {
			sb.WriteString(" " + a(i))
		}
		sb.WriteString(")")
	}
	return sb.String()
}

// HasFP reports whether t mentions floating point anywhere (memoised by caller).
func HasFP(t *Term, memo map[int]bool) bool {
	if v, ok := memo[t.ID]; ok {
		return v
	}
	r := t.S.K == FP || strings.HasPrefix(t.Op, "fp") || strings.HasSuffix(t.Op, "2fp")
	if !r {
		for _, a := range t.Args {
			if HasFP(a, memo) {
				r = true
				break
			}
		}
	}
	memo[t.ID] = r
	return r
}

// EqStruct is SMT-LIB structural equality (for FP: NaN = NaN, +0 != -0).
func (tb *Table) EqStruct(a, b *Term) *Term {
	if a == b {
		return tb.True()
	}
	if a.ID > b.ID {
		a, b = b, a
	}
	return tb.mk("=", BoolSort, 0, 0, a, b)
}

// Subst replaces variables by terms (memoised per call).
func (tb *Table) Subst(t *Term, m map[*Term]*Term, memo map[*Term]*Term) *Term {
	if r, ok := m[t]; ok {
		return r
	}
	if t.IsConst() || t.IsVar() {
		return t
	}
	if r, ok := memo[t]; ok {
		return r
	}
	args := make([]*Term, len(t.Args))
	changed := false
	for i, a := range t.Args {
		args[i] = tb.Subst(a, m, memo)
		if args[i] != a {
			changed = true
		}
	}
	r := t
	if changed {
		r = tb.AppI(t.Op, t.I, t.J, args...)
	}
	memo[t] = r
	return r
}
