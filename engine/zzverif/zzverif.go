// Package zzverif is the harness runtime.  It is never written into /repo: the
// checker injects it through a build overlay as pkg/zzverif/zzverif.go.
//
// Under the symbolic engine every function below is intercepted (the bodies
// are not executed).  Compiled natively the same harness code runs against
// the real build, with inputs taken from a replay file (a solver model) or
// from the seeded pseudo-random generator used for translator validation.
package zzverif

import (
	"encoding/json"
	"fmt"
	"math"
	"os"
	"strconv"
	"strings"
)

type job struct {
	ID      string            `json:"id"`
	Harness string            `json:"harness"`
	Mode    string            `json:"mode"` // "replay" | "random"
	Seed    uint64            `json:"seed"`
	Values  map[string]uint64 `json:"values"`
	Tier    int               `json:"tier"`
}

var (
	cur       *job
	nameCount map[string]int
	out       = os.Stdout
)

func splitmix(x uint64) uint64 {
	x += 0x9E3779B97F4A7C15
	x = (x ^ (x >> 30)) * 0xBF58476D1CE4E5B9
	x = (x ^ (x >> 27)) * 0x94D049BB133111EB
	return x ^ (x >> 31)
}

func fnv(s string) uint64 {
	h := uint64(14695981039346656037)
	for i := 0; i < len(s); i++ {
		h ^= uint64(s[i])
		h *= 1099511628211
	}
	return h
}

// RandomBits is the generator shared (by copy) with the engine.
func RandomBits(seed uint64, name string) uint64 {
	return splitmix(splitmix(seed) ^ fnv(name))
}

func raw(name string, width int, ranged bool, lo, hi uint64, signed bool) uint64 {
	if n := nameCount[name]; n > 0 {
		nameCount[name] = n + 1
		name = fmt.Sprintf("%s#%d", name, n)
	} else {
		nameCount[name] = 1
	}
	if cur == nil {
		panic("zzverif: no job")
	}
	if cur.Mode == "replay" {
		return cur.Values[name]
	}
	h := RandomBits(cur.Seed, name)
	if ranged {
		span := hi - lo + 1
		if span == 0 {
			return h
		}
		return lo + h%span
	}
	// bias small values a little: 1/4 of the draws are < 16
	if h>>62 == 0 {
		h = (h >> 8) & 15
	}
	if width < 64 {
		h &= (1 << uint(width)) - 1
	}
	return h
}

func Bool(name string) bool  { return raw(name, 1, false, 0, 0, false)&1 != 0 }
func U8(name string) uint8   { return uint8(raw(name, 8, false, 0, 0, false)) }
func U16(name string) uint16 { return uint16(raw(name, 16, false, 0, 0, false)) }
func U32(name string) uint32 { return uint32(raw(name, 32, false, 0, 0, false)) }
func U64(name string) uint64 { return raw(name, 64, false, 0, 0, false) }
func I8(name string) int8    { return int8(raw(name, 8, false, 0, 0, true)) }
func I16(name string) int16  { return int16(raw(name, 16, false, 0, 0, true)) }
func I32(name string) int32  { return int32(raw(name, 32, false, 0, 0, true)) }
func I64(name string) int64  { return int64(raw(name, 64, false, 0, 0, true)) }
func Int(name string) int    { return int(raw(name, 64, false, 0, 0, true)) }
func F64(name string) float64 {
	return math.Float64frombits(raw(name, 64, false, 0, 0, false))
}

// IntRange returns a value assumed to lie in [lo,hi] (symbolic under the engine).
func IntRange(name string, lo, hi int) int {
	if lo > hi {
		panic(assumeFailed{})
	}
	return int(int64(raw(name, 64, true, uint64(int64(lo)), uint64(int64(hi)), true)))
}

func U64Range(name string, lo, hi uint64) uint64 {
	if lo > hi {
		panic(assumeFailed{})
	}
	return raw(name, 64, true, lo, hi, false)
}

// ByteIn returns a byte drawn from alphabet (one constraint, no forking, under the engine).
func ByteIn(name string, alphabet string) byte {
	if len(alphabet) == 0 {
		panic(assumeFailed{})
	}
	if cur != nil && cur.Mode == "replay" {
		return byte(raw(name, 8, false, 0, 0, false))
	}
	return alphabet[raw(name, 64, true, 0, uint64(len(alphabet)-1), false)]
}

// Choice returns a value in [0,n) that is concrete on every explored path.
func Choice(name string, n int) int {
	if n <= 0 {
		panic(assumeFailed{})
	}
	return int(raw(name, 64, true, 0, uint64(n-1), false))
}

func Bytes(name string, n int) []byte {
	b := make([]byte, n)
	for i := range b {
		b[i] = U8(fmt.Sprintf("%s[%d]", name, i))
	}
	return b
}

func String(name string, n int) string { return string(Bytes(name, n)) }

type assumeFailed struct{}

func Assume(c bool) {
	if !c {
		panic(assumeFailed{})
	}
}

func Assert(c bool, label string) {
	if !c {
		fmt.Fprintf(out, "VERIF-ASSERT-FAIL %s\n", label)
	}
}

func Reach(label string) {}

func formatObs(v interface{}) string {
	switch v := v.(type) {
	case bool:
		return strconv.FormatBool(v)
	case int:
		return strconv.FormatInt(int64(v), 10)
	case int8:
		return strconv.FormatInt(int64(v), 10)
	case int16:
		return strconv.FormatInt(int64(v), 10)
	case int32:
		return strconv.FormatInt(int64(v), 10)
	case int64:
		return strconv.FormatInt(v, 10)
	case uint:
		return strconv.FormatUint(uint64(v), 10)
	case uint8:
		return strconv.FormatUint(uint64(v), 10)
	case uint16:
		return strconv.FormatUint(uint64(v), 10)
	case uint32:
		return strconv.FormatUint(uint64(v), 10)
	case uint64:
		return strconv.FormatUint(v, 10)
	case uintptr:
		return strconv.FormatUint(uint64(v), 10)
	case float64:
		return "f" + strconv.FormatUint(math.Float64bits(v), 16)
	case float32:
		return "f" + strconv.FormatUint(uint64(math.Float32bits(v)), 16)
	case string:
		return strconv.Quote(v)
	case []byte:
		parts := make([]string, len(v))
		for i := range v {
			parts[i] = strconv.FormatUint(uint64(v[i]), 10)
		}
		return "[" + strings.Join(parts, ",") + "]"
	}
	return fmt.Sprintf("<%T>", v)
}

// Observe logs a value for translator validation (concrete runs only).
func Observe(name string, v interface{}) {
	if cur != nil && cur.Mode == "random" {
		fmt.Fprintf(out, "VERIF-OBS %s=%s\n", name, formatObs(v))
	}
}

func Tier() int {
	if cur != nil {
		return cur.Tier
	}
	return 0
}

// Symbolic reports whether the harness runs under the symbolic engine.
func Symbolic() bool { return false }

// ExpectPanic declares that a panic escaping the harness is not a violation.
func ExpectPanic() {}

// Ite64 is a branch-free select (one term under the engine).
func Ite64(c bool, a, b uint64) uint64 {
	if c {
		return a
	}
	return b
}

func IsConcrete(v interface{}) bool { return true }

// Name builds "prefix<i>" without fmt.
func Name(prefix string, i int) string { return prefix + strconv.Itoa(i) }

// Try runs f and reports whether it panicked (any target-level panic).
func Try(f func()) (panicked bool) {
	defer func() {
		if r := recover(); r != nil {
			if _, ok := r.(assumeFailed); ok {
				panic(r)
			}
			panicked = true
		}
	}()
	f()
	return false
}

// RunNative executes the jobs listed in $VERIF_NATIVE_JOBS (a JSON file) against
// the natively compiled harnesses and prints a line protocol on stdout.
func RunNative(harnesses map[string]func()) {
	path := os.Getenv("VERIF_NATIVE_JOBS")
	if path == "" {
		return
	}
	data, err := os.ReadFile(path)
	if err != nil {
		fmt.Fprintf(out, "VERIF-ERROR %v\n", err)
		return
	}
	var jobs []job
	if err := json.Unmarshal(data, &jobs); err != nil {
		fmt.Fprintf(out, "VERIF-ERROR %v\n", err)
		return
	}
	only := os.Getenv("VERIF_NATIVE_ONLY")
	for k := range jobs {
		j := &jobs[k]
		if only != "" && j.ID != only {
			continue
		}
		h := harnesses[j.Harness]
		fmt.Fprintf(out, "VERIF-JOB %s START\n", j.ID)
		if h == nil {
			fmt.Fprintf(out, "VERIF-ERROR no harness %s\n", j.Harness)
		} else {
			runOne(j, h)
		}
		fmt.Fprintf(out, "VERIF-JOB %s END\n", j.ID)
	}
}

func runOne(j *job, h func()) {
	cur = j
	nameCount = map[string]int{}
	defer func() {
		cur = nil
		if r := recover(); r != nil {
			if _, ok := r.(assumeFailed); ok {
				fmt.Fprintf(out, "VERIF-ASSUME-FAIL\n")
				return
			}
			msg := fmt.Sprint(r)
			if i := strings.IndexByte(msg, '\n'); i >= 0 {
				msg = msg[:i]
			}
			fmt.Fprintf(out, "VERIF-PANIC %s\n", msg)
		}
	}()
	h()
}

// ---- file-model control (no-ops natively: the real file system is used and no
// crash is injected; crash-point harnesses are not replayable natively)

func CrashBefore(k int)      {}
func TornWrites(on bool)     {}
func FsOps() int             { return 0 }
func RunCrash(f func()) bool { f(); return false }
func FsPaths() []string      { return nil }
func FsFileNames() []string  { return nil }
