package interp

// If-conversion of small side-effect-light diamonds and triangles: instead of
// forking on a symbolic condition, both arms are evaluated and joined with ite
// terms.  Arms may contain pure scalar arithmetic, field/element address
// computations on non-nil pointers, loads, and stores of scalars (which become
// guarded stores).  Anything else falls back to forking.

import (
	"go/token"
	"go/types"

	"gosym/smt"

	"golang.org/x/tools/go/ssa"
)

// armSimple: statically acceptable arm block (single pred, ends in Jump).
func (i *interpreter) armSimple(b *ssa.BasicBlock) bool {
	i.sh.armMu.Lock()
	defer i.sh.armMu.Unlock()
	if v, ok := i.sh.armCache[b]; ok {
		return v
	}
	ok := len(b.Preds) == 1 && len(b.Succs) == 1 && len(b.Instrs) <= 24
	if ok {
		for k, in := range b.Instrs {
			switch in := in.(type) {
			case *ssa.BinOp:
				switch in.Op {
				case token.QUO, token.REM:
					ok = false
				case token.SHL, token.SHR:
					if kindSigned(basicKindOfType(in.Y.Type())) {
						if _, isConst := in.Y.(*ssa.Const); !isConst {
							ok = false
						}
					}
				}
				if basicKindOfType(in.X.Type()) == types.Invalid || basicKindOfType(in.X.Type()) == types.String {
					ok = false
				}
			case *ssa.UnOp:
				if in.Op == token.ARROW {
					ok = false
				}
				if in.Op == token.MUL && !isScalarType(in.Type()) {
					ok = false
				}
			case *ssa.Convert:
				if !isScalarType(in.Type()) || !isScalarType(in.X.Type()) {
					ok = false
				}
			case *ssa.ChangeType, *ssa.DebugRef:
			case *ssa.FieldAddr:
			case *ssa.Store:
				if !isScalarType(in.Val.Type()) {
					ok = false
				}
			case *ssa.Jump:
				if k != len(b.Instrs)-1 {
					ok = false
				}
			default:
				ok = false
			}
			if !ok {
				break
			}
		}
	}
	i.sh.armCache[b] = ok
	return ok
}

type pendingStore struct {
	addr *value
	val  value
}

// evalArm evaluates the arm block into tmp/stores; ok=false on anything unexpected.
func (fr *frame) evalArm(b *ssa.BasicBlock, tmp map[ssa.Value]value, stores *[]pendingStore) (ok bool) {
	i := fr.i
	defer func() {
		if p := recover(); p != nil {
			if isAbort(p) {
				if _, isUns := p.(unsupported); !isUns {
					panic(p)
				}
			}
			ok = false
		}
	}()
	get := func(v ssa.Value) value {
		if x, ok := tmp[v]; ok {
			return x
		}
		return fr.get(v)
	}
	for _, in := range b.Instrs {
		switch in := in.(type) {
		case *ssa.DebugRef, *ssa.Jump:
		case *ssa.BinOp:
			tmp[in] = binop(i, in.Op, in.X.Type(), get(in.X), get(in.Y))
		case *ssa.UnOp:
			x := get(in.X)
			if in.Op == token.MUL {
				p, isPtr := x.(*value)
				if !isPtr || p == nil {
					return false
				}
				v := *p
				for k := len(*stores) - 1; k >= 0; k-- {
					if (*stores)[k].addr == p {
						v = (*stores)[k].val
						break
					}
				}
				if kindOf(v) == types.Invalid {
					return false
				}
				tmp[in] = v
			} else {
				tmp[in] = unop(i, in, x)
			}
		case *ssa.Convert:
			tmp[in] = conv(i, in.Type(), in.X.Type(), get(in.X))
		case *ssa.ChangeType:
			tmp[in] = get(in.X)
		case *ssa.FieldAddr:
			p, isPtr := get(in.X).(*value)
			if !isPtr || p == nil {
				return false
			}
			tmp[in] = &(*p).(structure)[in.Field]
		case *ssa.Store:
			p, isPtr := get(in.Addr).(*value)
			if !isPtr || p == nil {
				return false
			}
			v := get(in.Val)
			if kindOf(v) == types.Invalid || kindOf(*p) != kindOf(v) {
				return false
			}
			*stores = append(*stores, pendingStore{p, v})
		default:
			return false
		}
	}
	return true
}

// tryMerge attempts if-conversion at instr with symbolic condition c.
func (fr *frame) tryMerge(instr *ssa.If, c *smt.Term) bool {
	i := fr.i
	if i.cfg.NoMerge {
		return false
	}
	cur := fr.block
	tb, fb := cur.Succs[0], cur.Succs[1]
	var join *ssa.BasicBlock
	var tArm, fArm *ssa.BasicBlock
	switch {
	case i.armSimple(tb) && tb.Succs[0] == fb:
		join, tArm = fb, tb
	case i.armSimple(fb) && fb.Succs[0] == tb:
		join, fArm = tb, fb
	case i.armSimple(tb) && i.armSimple(fb) && tb.Succs[0] == fb.Succs[0]:
		join, tArm, fArm = tb.Succs[0], tb, fb
	default:
		return false
	}
	if join == cur || join == tArm || join == fArm {
		return false
	}
	tTmp, fTmp := map[ssa.Value]value{}, map[ssa.Value]value{}
	var tStores, fStores []pendingStore
	if tArm != nil && !fr.evalArm(tArm, tTmp, &tStores) {
		return false
	}
	if fArm != nil && !fr.evalArm(fArm, fTmp, &fStores) {
		return false
	}
	// phi values at the join
	tPred, fPred := cur, cur
	if tArm != nil {
		tPred = tArm
	}
	if fArm != nil {
		fPred = fArm
	}
	tIdx, fIdx := -1, -1
	for k, p := range join.Preds {
		if p == tPred && tIdx < 0 {
			tIdx = k
		} else if p == fPred && fIdx < 0 {
			fIdx = k
		}
		if p == fPred && fIdx < 0 && tPred == fPred {
			fIdx = k
		}
	}
	if tPred == fPred {
		return false
	}
	if tIdx < 0 || fIdx < 0 {
		return false
	}
	getT := func(v ssa.Value) value {
		if x, ok := tTmp[v]; ok {
			return x
		}
		return fr.get(v)
	}
	getF := func(v ssa.Value) value {
		if x, ok := fTmp[v]; ok {
			return x
		}
		return fr.get(v)
	}
	var phis []*ssa.Phi
	var phiVals []value
	for _, in := range join.Instrs {
		phi, ok := in.(*ssa.Phi)
		if !ok {
			break
		}
		a, b := getT(phi.Edges[tIdx]), getF(phi.Edges[fIdx])
		var v value
		ka, kb := kindOf(a), kindOf(b)
		switch {
		case ka != types.Invalid && ka == kb:
			v = i.iteVal(c, a, b)
		default:
			// non-scalars must be identical pointers
			pa, oka := a.(*value)
			pb, okb := b.(*value)
			if oka && okb && pa == pb {
				v = a
			} else {
				return false
			}
		}
		phis = append(phis, phi)
		phiVals = append(phiVals, v)
	}
	// commit: guarded stores
	nc := i.tb.Not(c)
	for _, s := range tStores {
		*s.addr = i.iteVal(c, s.val, *s.addr)
	}
	for _, s := range fStores {
		*s.addr = i.iteVal(nc, s.val, *s.addr)
	}
	for k, v := range tTmp {
		fr.env[k] = v
	}
	for k, v := range fTmp {
		fr.env[k] = v
	}
	for k, phi := range phis {
		fr.env[phi] = phiVals[k]
	}
	fr.prevBlock, fr.block = tPred, join
	fr.phisDone = true
	i.merges++
	return true
}
