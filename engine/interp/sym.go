package interp

// Symbolic scalar semantics: Go integer/float/bool operators over SMT terms.

import (
	"fmt"
	"go/token"
	"go/types"
	"math"
	"os"
	"unsafe"

	"gosym/smt"
)

type unsupported string

func (u unsupported) Error() string { return "UNSUPPORTED: " + string(u) }

type engineBug string

func (u engineBug) Error() string { return "ENGINE-BUG: " + string(u) }

// rtError mimics a Go runtime error raised by the target program.
type rtError string

func (e rtError) Error() string { return "runtime error: " + string(e) }
func (e rtError) RuntimeError() {}

func kindOf(v value) types.BasicKind {
	switch v := v.(type) {
	case bool:
		return types.Bool
	case int:
		return types.Int
	case int8:
		return types.Int8
	case int16:
		return types.Int16
	case int32:
		return types.Int32
	case int64:
		return types.Int64
	case uint:
		return types.Uint
	case uint8:
		return types.Uint8
	case uint16:
		return types.Uint16
	case uint32:
		return types.Uint32
	case uint64:
		return types.Uint64
	case uintptr:
		return types.Uintptr
	case float32:
		return types.Float32
	case float64:
		return types.Float64
	case sym:
		return v.k
	}
	return types.Invalid
}

func kindWidth(k types.BasicKind) int {
	switch k {
	case types.Int8, types.Uint8:
		return 8
	case types.Int16, types.Uint16:
		return 16
	case types.Int32, types.Uint32, types.Float32:
		return 32
	case types.Int, types.Int64, types.Uint, types.Uint64, types.Uintptr, types.Float64:
		return 64
	}
	return 0
}

func kindSigned(k types.BasicKind) bool {
	switch k {
	case types.Int, types.Int8, types.Int16, types.Int32, types.Int64:
		return true
	}
	return false
}

func kindIsInt(k types.BasicKind) bool {
	switch k {
	case types.Int, types.Int8, types.Int16, types.Int32, types.Int64,
		types.Uint, types.Uint8, types.Uint16, types.Uint32, types.Uint64, types.Uintptr:
		return true
	}
	return false
}

func kindIsFloat(k types.BasicKind) bool { return k == types.Float32 || k == types.Float64 }

func isSym(v value) bool {
	_, ok := v.(sym)
	return ok
}

// basicKindOfType returns the underlying basic kind of t, or Invalid.
func basicKindOfType(t types.Type) types.BasicKind {
	if b, ok := t.Underlying().(*types.Basic); ok {
		k := b.Kind()
		switch k {
		case types.UntypedBool:
			return types.Bool
		case types.UntypedInt:
			return types.Int
		case types.UntypedRune:
			return types.Int32
		case types.UntypedFloat:
			return types.Float64
		}
		return k
	}
	return types.Invalid
}

// term converts a scalar (concrete or symbolic) to a term.
func (i *interpreter) term(v value) *smt.Term {
	tb := i.tb
	switch v := v.(type) {
	case sym:
		return v.t
	case bool:
		return tb.BoolConst(v)
	case int:
		return tb.BVConst(uint64(v), 64)
	case int8:
		return tb.BVConst(uint64(v), 8)
	case int16:
		return tb.BVConst(uint64(v), 16)
	case int32:
		return tb.BVConst(uint64(v), 32)
	case int64:
		return tb.BVConst(uint64(v), 64)
	case uint:
		return tb.BVConst(uint64(v), 64)
	case uint8:
		return tb.BVConst(uint64(v), 8)
	case uint16:
		return tb.BVConst(uint64(v), 16)
	case uint32:
		return tb.BVConst(uint64(v), 32)
	case uint64:
		return tb.BVConst(v, 64)
	case uintptr:
		return tb.BVConst(uint64(v), 64)
	case float32:
		return tb.FPConst32(v)
	case float64:
		return tb.FPConst64(v)
	}
	panic(engineBug(fmt.Sprintf("term: not a scalar: %T", v)))
}

// concreteOf builds the concrete Go value of kind k from raw bits.
func concreteOf(bits uint64, k types.BasicKind) value {
	switch k {
	case types.Bool:
		return bits != 0
	case types.Int:
		return int(bits)
	case types.Int8:
		return int8(bits)
	case types.Int16:
		return int16(bits)
	case types.Int32:
		return int32(bits)
	case types.Int64:
		return int64(bits)
	case types.Uint:
		return uint(bits)
	case types.Uint8:
		return uint8(bits)
	case types.Uint16:
		return uint16(bits)
	case types.Uint32:
		return uint32(bits)
	case types.Uint64:
		return uint64(bits)
	case types.Uintptr:
		return uintptr(bits)
	case types.Float32:
		return math.Float32frombits(uint32(bits))
	case types.Float64:
		return math.Float64frombits(bits)
	}
	panic(engineBug(fmt.Sprintf("concreteOf: kind %v", k)))
}

// mkSym wraps a term as a value of kind k, returning a concrete value when constant.
func (i *interpreter) mkSym(t *smt.Term, k types.BasicKind) value {
	if t.IsConst() {
		return concreteOf(t.Val, k)
	}
	return sym{t: t, k: k}
}

// truth forces a boolean value (possibly symbolic) to a concrete bool by deciding.
func (i *interpreter) truth(v value) bool {
	switch v := v.(type) {
	case bool:
		return v
	case sym:
		return i.decide(v.t)
	}
	panic(engineBug(fmt.Sprintf("truth: %T", v)))
}

func (i *interpreter) boolAnd(a, b value) value {
	if x, ok := a.(bool); ok {
		if !x {
			return false
		}
		return b
	}
	if y, ok := b.(bool); ok {
		if !y {
			return false
		}
		return a
	}
	return i.mkSym(i.tb.And(a.(sym).t, b.(sym).t), types.Bool)
}

func (i *interpreter) boolNot(a value) value {
	if x, ok := a.(bool); ok {
		return !x
	}
	return i.mkSym(i.tb.Not(a.(sym).t), types.Bool)
}

// symBinop implements binary operators when at least one operand is symbolic.
func (i *interpreter) symBinop(op token.Token, x, y value) value {
	tb := i.tb
	k := kindOf(x)
	if k == types.Invalid {
		panic(engineBug(fmt.Sprintf("symBinop: bad operand %T", x)))
	}
	a := i.term(x)
	if op == token.SHL || op == token.SHR {
		return i.symShift(op, x, y)
	}
	b := i.term(y)
	if k == types.Bool {
		switch op {
		case token.EQL:
			return i.mkSym(tb.Eq(a, b), types.Bool)
		case token.NEQ:
			return i.mkSym(tb.Not(tb.Eq(a, b)), types.Bool)
		}
		panic(engineBug("bool binop " + op.String()))
	}
	if kindIsFloat(k) {
		var r *smt.Term
		switch op {
		case token.ADD:
			return i.mkSym(tb.App("fp.add", a, b), k)
		case token.SUB:
			return i.mkSym(tb.App("fp.sub", a, b), k)
		case token.MUL:
			return i.mkSym(tb.App("fp.mul", a, b), k)
		case token.QUO:
			return i.mkSym(tb.App("fp.div", a, b), k)
		case token.EQL:
			r = tb.App("fp.eq", a, b)
		case token.NEQ:
			r = tb.Not(tb.App("fp.eq", a, b))
		case token.LSS:
			r = tb.App("fp.lt", a, b)
		case token.LEQ:
			r = tb.App("fp.leq", a, b)
		case token.GTR:
			r = tb.App("fp.gt", a, b)
		case token.GEQ:
			r = tb.App("fp.geq", a, b)
		default:
			panic(engineBug("float binop " + op.String()))
		}
		return i.mkSym(r, types.Bool)
	}
	sg := kindSigned(k)
	w := kindWidth(k)
	pick := func(s, u string) string {
		if sg {
			return s
		}
		return u
	}
	switch op {
	case token.ADD:
		return i.mkSym(tb.App("bvadd", a, b), k)
	case token.SUB:
		return i.mkSym(tb.App("bvsub", a, b), k)
	case token.MUL:
		return i.mkSym(tb.App("bvmul", a, b), k)
	case token.QUO, token.REM:
		// division by zero panics
		if i.decide(tb.Eq(b, tb.BVConst(0, w))) {
			panic(rtError("integer divide by zero"))
		}
		if op == token.QUO {
			return i.mkSym(tb.App(pick("bvsdiv", "bvudiv"), a, b), k)
		}
		return i.mkSym(tb.App(pick("bvsrem", "bvurem"), a, b), k)
	case token.AND:
		return i.mkSym(tb.App("bvand", a, b), k)
	case token.OR:
		return i.mkSym(tb.App("bvor", a, b), k)
	case token.XOR:
		return i.mkSym(tb.App("bvxor", a, b), k)
	case token.AND_NOT:
		return i.mkSym(tb.App("bvand", a, tb.App("bvnot", b)), k)
	case token.EQL:
		return i.mkSym(tb.Eq(a, b), types.Bool)
	case token.NEQ:
		return i.mkSym(tb.Not(tb.Eq(a, b)), types.Bool)
	case token.LSS:
		return i.mkSym(tb.App(pick("bvslt", "bvult"), a, b), types.Bool)
	case token.LEQ:
		return i.mkSym(tb.App(pick("bvsle", "bvule"), a, b), types.Bool)
	case token.GTR:
		return i.mkSym(tb.App(pick("bvsgt", "bvugt"), a, b), types.Bool)
	case token.GEQ:
		return i.mkSym(tb.App(pick("bvsge", "bvuge"), a, b), types.Bool)
	}
	panic(engineBug("int binop " + op.String()))
}

func (i *interpreter) symShift(op token.Token, x, y value) value {
	tb := i.tb
	k := kindOf(x)
	w := kindWidth(k)
	a := i.term(x)
	ky := kindOf(y)
	b := i.term(y)
	wy := kindWidth(ky)
	if kindSigned(ky) {
		// negative shift count panics
		if i.decide(tb.App("bvslt", b, tb.BVConst(0, wy))) {
			panic(rtError("negative shift amount"))
		}
	}
	// bring count to width w, saturating
	var cnt *smt.Term
	if wy == w {
		cnt = b
	} else if wy < w {
		cnt = tb.ZeroExt(w-wy, b)
	} else {
		big := tb.App("bvuge", b, tb.BVConst(uint64(w), wy))
		cnt = tb.Ite(big, tb.BVConst(uint64(w), w), tb.Extract(w-1, 0, b))
	}
	switch op {
	case token.SHL:
		return i.mkSym(tb.App("bvshl", a, cnt), k)
	default:
		if kindSigned(k) {
			return i.mkSym(tb.App("bvashr", a, cnt), k)
		}
		return i.mkSym(tb.App("bvlshr", a, cnt), k)
	}
}

func (i *interpreter) symUnop(op token.Token, x sym) value {
	tb := i.tb
	switch op {
	case token.SUB:
		if kindIsFloat(x.k) {
			return i.mkSym(tb.App("fp.neg", x.t), x.k)
		}
		return i.mkSym(tb.App("bvneg", x.t), x.k)
	case token.NOT:
		return i.mkSym(tb.Not(x.t), types.Bool)
	case token.XOR:
		return i.mkSym(tb.App("bvnot", x.t), x.k)
	}
	panic(engineBug("symUnop " + op.String()))
}

// symConv converts a symbolic scalar to basic kind dst.
func (i *interpreter) symConv(x sym, dst types.BasicKind) value {
	tb := i.tb
	if x.k == dst {
		return x
	}
	sw, dw := kindWidth(x.k), kindWidth(dst)
	switch {
	case kindIsInt(x.k) && kindIsInt(dst):
		var t *smt.Term
		switch {
		case dw == sw:
			t = x.t
		case dw < sw:
			t = tb.Extract(dw-1, 0, x.t)
		case kindSigned(x.k):
			t = tb.SignExt(dw-sw, x.t)
		default:
			t = tb.ZeroExt(dw-sw, x.t)
		}
		return i.mkSym(t, dst)
	case kindIsInt(x.k) && kindIsFloat(dst):
		if kindSigned(x.k) {
			return i.mkSym(tb.AppI("sbv2fp", dw, 0, x.t), dst)
		}
		return i.mkSym(tb.AppI("ubv2fp", dw, 0, x.t), dst)
	case kindIsFloat(x.k) && kindIsInt(dst):
		if kindSigned(dst) {
			return i.mkSym(tb.AppI("fp2sbv", dw, 0, x.t), dst)
		}
		return i.mkSym(tb.AppI("fp2ubv", dw, 0, x.t), dst)
	case kindIsFloat(x.k) && kindIsFloat(dst):
		return i.mkSym(tb.AppI("fp2fp", dw, 0, x.t), dst)
	}
	panic(unsupported(fmt.Sprintf("symbolic conversion %v -> %v", x.k, dst)))
}

// ---------------------------------------------------------------- equality

// equalsV returns x == y (bool or symbolic Bool) per Go's relation for type t.
func equalsV(i *interpreter, t types.Type, x, y value) value {
	switch x := x.(type) {
	case sym:
		return i.symBinop(token.EQL, x, y)
	case symString:
		return i.strEq(x, y)
	case string:
		if ys, ok := y.(symString); ok {
			return i.strEq(ys, x)
		}
		return x == y.(string)
	case bool, int, int8, int16, int32, int64, uint, uint8, uint16, uint32, uint64, uintptr, float32, float64:
		if ys, ok := y.(sym); ok {
			return i.symBinop(token.EQL, ys, x)
		}
		return x == y
	case complex64:
		return x == y.(complex64)
	case complex128:
		return x == y.(complex128)
	case *value:
		return x == y.(*value)
	case chan value:
		return x == y.(chan value)
	case unsafe.Pointer:
		yp, ok := y.(unsafe.Pointer)
		return ok && x == yp
	case structure:
		ys := y.(structure)
		tStruct := t.Underlying().(*types.Struct)
		var res value = true
		for j, n := 0, tStruct.NumFields(); j < n; j++ {
			f := tStruct.Field(j)
			if f.Name() == "_" {
				continue
			}
			res = i.boolAnd(res, equalsV(i, f.Type(), x[j], ys[j]))
			if b, ok := res.(bool); ok && !b {
				return false
			}
		}
		return res
	case array:
		ys := y.(array)
		tElt := t.Underlying().(*types.Array).Elem()
		var res value = true
		for j := range x {
			res = i.boolAnd(res, equalsV(i, tElt, x[j], ys[j]))
			if b, ok := res.(bool); ok && !b {
				return false
			}
		}
		return res
	case iface:
		ys := y.(iface)
		if !sameType(x.t, ys.t) {
			return false
		}
		if x.t == nil {
			return true
		}
		return equalsV(i, x.t, x.v, ys.v)
	case opaque:
		panic(unsupported("comparison of opaque value " + x.what))
	}
	if os.Getenv("VERIF_STACK") != "" {
		for f := i.curFr; f != nil; f = f.caller {
			fmt.Fprintf(os.Stderr, "  stack: %s\n", f.pos())
		}
	}
	panic(engineBug(fmt.Sprintf("comparing uncomparable type %s (%T)", t, x)))
}

func (i *interpreter) strEq(x symString, y value) value {
	yb := strBytes(y)
	if len(x.b) != len(yb) {
		return false
	}
	var res value = true
	for j := range x.b {
		res = i.boolAnd(res, equalsV(i, nil, x.b[j], yb[j]))
		if b, ok := res.(bool); ok && !b {
			return false
		}
	}
	return res
}

// strLess returns x < y lexicographically as a value.
func (i *interpreter) strLess(xb, yb []value, orEq bool) value {
	tb := i.tb
	// build from the end: less(i) = x[i]<y[i] || (x[i]==y[i] && less(i+1))
	n := len(xb)
	if len(yb) < n {
		n = len(yb)
	}
	var tail *smt.Term
	if len(xb) < len(yb) || (orEq && len(xb) == len(yb)) {
		tail = tb.True()
	} else {
		tail = tb.False()
	}
	for j := n - 1; j >= 0; j-- {
		a, b := i.term(xb[j]), i.term(yb[j])
		tail = tb.Or(tb.App("bvult", a, b), tb.And(tb.Eq(a, b), tail))
	}
	return i.mkSym(tail, types.Bool)
}

func (i *interpreter) symStringBinop(op token.Token, x, y value) value {
	xb, yb := strBytes(x), strBytes(y)
	switch op {
	case token.ADD:
		out := make([]value, 0, len(xb)+len(yb))
		out = append(out, xb...)
		out = append(out, yb...)
		return mkString(out)
	case token.EQL:
		return i.strEq(symString{xb}, symString{yb})
	case token.NEQ:
		return i.boolNot(i.strEq(symString{xb}, symString{yb}))
	case token.LSS:
		return i.strLess(xb, yb, false)
	case token.LEQ:
		return i.strLess(xb, yb, true)
	case token.GTR:
		return i.strLess(yb, xb, false)
	case token.GEQ:
		return i.strLess(yb, xb, true)
	}
	panic(engineBug("string binop " + op.String()))
}

// ite builds a value-level if-then-else for scalars.
func (i *interpreter) iteVal(c *smt.Term, a, b value) value {
	k := kindOf(a)
	if k == types.Invalid || kindOf(b) != k {
		panic(engineBug(fmt.Sprintf("iteVal: %T %T", a, b)))
	}
	return i.mkSym(i.tb.Ite(c, i.term(a), i.term(b)), k)
}
