package interp

// Engine intrinsics: functions that have no Go body (assembly, runtime
// linkname), need reflection/unsafe, or are replaced by a contract model.

import (
	"fmt"
	"go/token"
	"go/types"
	"math"
	"math/bits"
	"sort"
	"strconv"
	"strings"
	"unsafe"

	"gosym/smt"

	"golang.org/x/tools/go/ssa"
)

type externalFn func(fr *frame, args []value) value

// Key strings are from Function.String() (origin name for generic instances).
var externals = make(map[string]externalFn)

// ZZ is the import path of the harness runtime package.
const ZZ = "github.com/siglens/siglens/pkg/zzverif"

func init() {
	for k, v := range map[string]externalFn{
		// ---- harness runtime
		ZZ + ".Bool":        func(fr *frame, a []value) value { return fr.i.input(a[0], types.Bool, 0, 0, false) },
		ZZ + ".U8":          func(fr *frame, a []value) value { return fr.i.input(a[0], types.Uint8, 0, 0, false) },
		ZZ + ".U16":         func(fr *frame, a []value) value { return fr.i.input(a[0], types.Uint16, 0, 0, false) },
		ZZ + ".U32":         func(fr *frame, a []value) value { return fr.i.input(a[0], types.Uint32, 0, 0, false) },
		ZZ + ".U64":         func(fr *frame, a []value) value { return fr.i.input(a[0], types.Uint64, 0, 0, false) },
		ZZ + ".I8":          func(fr *frame, a []value) value { return fr.i.input(a[0], types.Int8, 0, 0, false) },
		ZZ + ".I16":         func(fr *frame, a []value) value { return fr.i.input(a[0], types.Int16, 0, 0, false) },
		ZZ + ".I32":         func(fr *frame, a []value) value { return fr.i.input(a[0], types.Int32, 0, 0, false) },
		ZZ + ".I64":         func(fr *frame, a []value) value { return fr.i.input(a[0], types.Int64, 0, 0, false) },
		ZZ + ".Int":         func(fr *frame, a []value) value { return fr.i.input(a[0], types.Int, 0, 0, false) },
		ZZ + ".F64":         func(fr *frame, a []value) value { return fr.i.input(a[0], types.Float64, 0, 0, false) },
		ZZ + ".IntRange":    ext۰zz۰IntRange,
		ZZ + ".ByteIn":      ext۰zz۰ByteIn,
		ZZ + ".U64Range":    ext۰zz۰U64Range,
		ZZ + ".Choice":      ext۰zz۰Choice,
		ZZ + ".Bytes":       ext۰zz۰Bytes,
		ZZ + ".String":      ext۰zz۰String,
		ZZ + ".Assume":      func(fr *frame, a []value) value { fr.i.assume(a[0]); return nil },
		ZZ + ".Assert":      func(fr *frame, a []value) value { fr.i.assert(a[0], mustConcreteString(a[1])); return nil },
		ZZ + ".Reach":       func(fr *frame, a []value) value { fr.i.res.reached[mustConcreteString(a[0])] = true; return nil },
		ZZ + ".Observe":     ext۰zz۰Observe,
		ZZ + ".Tier":        func(fr *frame, a []value) value { return fr.i.cfg.Tier },
		ZZ + ".Symbolic":    func(fr *frame, a []value) value { return fr.i.mode == Symbolic },
		ZZ + ".ExpectPanic": func(fr *frame, a []value) value { fr.i.res.expectPanic = true; return nil },
		ZZ + ".Ite64":       ext۰zz۰Ite,
		ZZ + ".IsConcrete":  func(fr *frame, a []value) value { return !containsSym(a[0]) },

		// ---- math
		"math.Float64bits":     ext۰math۰Float64bits,
		"math.Float64frombits": ext۰math۰Float64frombits,
		"math.Float32bits":     ext۰math۰Float32bits,
		"math.Float32frombits": ext۰math۰Float32frombits,
		"math.Abs":             fpUnary("fp.abs", math.Abs),
		"math.Sqrt":            fpUnary("fp.sqrt", math.Sqrt),
		"math.Floor":           fpUnary("fp.floor", math.Floor),
		"math.Ceil":            fpUnary("fp.ceil", math.Ceil),
		"math.Trunc":           fpUnary("fp.trunc", math.Trunc),
		"math.IsNaN":           ext۰math۰IsNaN,
		"math.IsInf":           ext۰math۰IsInf,
		"math.Inf":             func(fr *frame, a []value) value { return math.Inf(a[0].(int)) },
		"math.NaN":             func(fr *frame, a []value) value { return math.NaN() },
		"math.Exp":             fpConcrete1(math.Exp),
		"math.Log":             fpConcrete1(math.Log),
		"math.Log2":            fpConcrete1(math.Log2),
		"math.Log10":           fpConcrete1(math.Log10),
		"math.Round":           fpUnary("fp.rna", math.Round),
		"math.Pow":             fpConcrete2(math.Pow),
		"math.Mod":             fpConcrete2(math.Mod),
		"math.Max":             ext۰math۰Max,
		"math.Min":             ext۰math۰Min,

		// ---- math/bits
		"math/bits.LeadingZeros64":  bitsFn(64, "clz"),
		"math/bits.LeadingZeros32":  bitsFn(32, "clz"),
		"math/bits.LeadingZeros16":  bitsFn(16, "clz"),
		"math/bits.LeadingZeros8":   bitsFn(8, "clz"),
		"math/bits.LeadingZeros":    bitsFn(64, "clz"),
		"math/bits.TrailingZeros64": bitsFn(64, "ctz"),
		"math/bits.TrailingZeros32": bitsFn(32, "ctz"),
		"math/bits.TrailingZeros16": bitsFn(16, "ctz"),
		"math/bits.TrailingZeros8":  bitsFn(8, "ctz"),
		"math/bits.TrailingZeros":   bitsFn(64, "ctz"),
		"math/bits.Len64":           bitsFn(64, "len"),
		"math/bits.Len32":           bitsFn(32, "len"),
		"math/bits.Len16":           bitsFn(16, "len"),
		"math/bits.Len8":            bitsFn(8, "len"),
		"math/bits.Len":             bitsFn(64, "len"),

		// ---- bytealg
		"internal/bytealg.IndexByte":       ext۰bytealg۰IndexByte,
		"internal/bytealg.IndexByteString": ext۰bytealg۰IndexByte,
		"internal/bytealg.Equal":           ext۰bytealg۰Equal,
		"internal/bytealg.Compare":         ext۰bytealg۰Compare,
		"internal/bytealg.CompareString":   ext۰bytealg۰Compare,
		"internal/bytealg.Count":           ext۰bytealg۰Count,
		"internal/bytealg.CountString":     ext۰bytealg۰Count,
		"internal/bytealg.Index":           ext۰bytealg۰Index,
		"internal/bytealg.IndexString":     ext۰bytealg۰Index,
		"internal/bytealg.MakeNoZero": func(fr *frame, a []value) value {
			n := a[0].(int)
			s := make([]value, n)
			for i := range s {
				s[i] = uint8(0)
			}
			return s
		},
		"bytes.IndexByte":   ext۰bytealg۰IndexByte,
		"strings.IndexByte": ext۰bytealg۰IndexByte,
		"bytes.Equal":       ext۰bytealg۰Equal,
		"strings.ToLower":   caseFn(false),
		"strings.ToUpper":   caseFn(true),
		"bytes.ToLower":     caseFn(false),
		"bytes.ToUpper":     caseFn(true),
		"strings.EqualFold": ext۰strings۰EqualFold,
		"bytes.EqualFold":   ext۰strings۰EqualFold,

		// ---- strings.Builder (uses unsafe)
		"(*strings.Builder).WriteString": ext۰Builder۰WriteString,
		"(*strings.Builder).Write":       ext۰Builder۰WriteString,
		"(*strings.Builder).WriteByte":   ext۰Builder۰WriteByte,
		"(*strings.Builder).WriteRune":   ext۰Builder۰WriteRune,
		"(*strings.Builder).String":      ext۰Builder۰String,
		"(*strings.Builder).Len":         ext۰Builder۰Len,
		"(*strings.Builder).Cap":         ext۰Builder۰Len,
		"(*strings.Builder).Grow":        func(fr *frame, a []value) value { return nil },
		"(*strings.Builder).Reset":       ext۰Builder۰Reset,

		// ---- fmt / errors / logging
		"fmt.Sprintf":  ext۰fmt۰Sprintf,
		"fmt.Sprint":   ext۰fmt۰Sprint,
		"fmt.Sprintln": ext۰fmt۰Sprint,
		"fmt.Errorf":   ext۰fmt۰Errorf,
		"fmt.Println":  noopN(2),
		"fmt.Printf":   noopN(2),
		"fmt.Print":    noopN(2),
		"fmt.Fprintf":  noopN(2),
		"fmt.Fprintln": noopN(2),
		"fmt.Fprint":   noopN(2),
		"errors.Is":    ext۰errors۰Is,

		// ---- sync
		"(*sync.Mutex).Lock":               noop,
		"(*sync.Mutex).Unlock":             noop,
		"(*sync.Mutex).TryLock":            func(fr *frame, a []value) value { return true },
		"(*sync.RWMutex).Lock":             noop,
		"(*sync.RWMutex).Unlock":           noop,
		"(*sync.RWMutex).RLock":            noop,
		"(*sync.RWMutex).RUnlock":          noop,
		"(*sync.RWMutex).TryLock":          func(fr *frame, a []value) value { return true },
		"(*sync.RWMutex).TryRLock":         func(fr *frame, a []value) value { return true },
		"(*sync.WaitGroup).Add":            noop,
		"(*sync.WaitGroup).Done":           noop,
		"(*sync.WaitGroup).Wait":           func(fr *frame, a []value) value { fr.i.runPendingGo(); return nil },
		"(*sync.Once).Do":                  ext۰sync۰Once۰Do,
		"(*sync.Once).doSlow":              ext۰sync۰Once۰Do,
		"(*sync.Pool).Get":                 ext۰sync۰Pool۰Get,
		"(*sync.Pool).Put":                 ext۰sync۰Pool۰Put,
		"(*sync.Cond).Signal":              noop,
		"(*sync.Cond).Broadcast":           noop,
		"sync.runtime_registerPoolCleanup": noop,
		"sync.runtime_notifyListCheck":     noop,
		"sync.throw":                       noop,
		"sync.fatal":                       noop,

		// ---- sync/atomic
		"sync/atomic.LoadInt32":            atomicLoad,
		"sync/atomic.LoadInt64":            atomicLoad,
		"sync/atomic.LoadUint32":           atomicLoad,
		"sync/atomic.LoadUint64":           atomicLoad,
		"sync/atomic.LoadUintptr":          atomicLoad,
		"sync/atomic.LoadPointer":          atomicLoad,
		"sync/atomic.StoreInt32":           atomicStore,
		"sync/atomic.StoreInt64":           atomicStore,
		"sync/atomic.StoreUint32":          atomicStore,
		"sync/atomic.StoreUint64":          atomicStore,
		"sync/atomic.StoreUintptr":         atomicStore,
		"sync/atomic.StorePointer":         atomicStore,
		"sync/atomic.AddInt32":             atomicAdd,
		"sync/atomic.AddInt64":             atomicAdd,
		"sync/atomic.AddUint32":            atomicAdd,
		"sync/atomic.AddUint64":            atomicAdd,
		"sync/atomic.AddUintptr":           atomicAdd,
		"sync/atomic.SwapInt32":            atomicSwap,
		"sync/atomic.SwapInt64":            atomicSwap,
		"sync/atomic.SwapUint32":           atomicSwap,
		"sync/atomic.SwapUint64":           atomicSwap,
		"sync/atomic.CompareAndSwapInt32":  atomicCAS,
		"sync/atomic.CompareAndSwapInt64":  atomicCAS,
		"sync/atomic.CompareAndSwapUint32": atomicCAS,
		"sync/atomic.CompareAndSwapUint64": atomicCAS,
		"(*sync/atomic.Value).Load":        ext۰atomic۰Value۰Load,
		"(*sync/atomic.Value).Store":       ext۰atomic۰Value۰Store,

		// ---- runtime / os / time
		"runtime.GOMAXPROCS":       func(fr *frame, a []value) value { return 4 },
		"runtime.NumCPU":           func(fr *frame, a []value) value { return 4 },
		"runtime.Gosched":          noop,
		"runtime.GC":               noop,
		"runtime.KeepAlive":        noop,
		"runtime.SetFinalizer":     noop,
		"runtime.Caller":           func(fr *frame, a []value) value { return tuple{uintptr(0), "", 0, false} },
		"runtime.Callers":          func(fr *frame, a []value) value { return 0 },
		"runtime.Stack":            func(fr *frame, a []value) value { return 0 },
		"runtime/debug.Stack":      func(fr *frame, a []value) value { return []value{} },
		"runtime/debug.PrintStack": noop,
		"os.Getenv":                func(fr *frame, a []value) value { return "" },
		"os.LookupEnv":             func(fr *frame, a []value) value { return tuple{"", false} },
		"os.Getpid":                func(fr *frame, a []value) value { return 4242 },
		"os.Exit":                  func(fr *frame, a []value) value { panic(unsupported("os.Exit called")) },
		"time.now":                 ext۰time۰now,
		"time.runtimeNano":         func(fr *frame, a []value) value { return fr.i.clockNano() },
		"time.Now":                 ext۰time۰Now,
		"time.Sleep":               noop,
		"time.Since":               nil,

		// ---- sort
		"sort.Slice":       ext۰sort۰Slice,
		"sort.SliceStable": ext۰sort۰Slice,
		"sort.Strings":     ext۰sort۰Basic,
		"sort.Ints":        ext۰sort۰Basic,
		"sort.Float64s":    ext۰sort۰Basic,

		// ---- strconv (concrete fast paths; symbolic args fall to the Go source)
		"strconv.Itoa": func(fr *frame, a []value) value {
			if n, ok := a[0].(int); ok {
				return strconv.Itoa(n)
			}
			panic(unsupported("strconv.Itoa on symbolic value"))
		},
	} {
		if v != nil {
			externals[k] = v
		}
	}
}

func noop(fr *frame, args []value) value { return nil }

func noopN(n int) externalFn {
	return func(fr *frame, args []value) value {
		return zero(fr.fn.Signature.Results())
	}
}

func mustConcreteString(v value) string {
	switch v := v.(type) {
	case string:
		return v
	case symString:
		if s, ok := v.concrete(); ok {
			return s
		}
	}
	panic(engineBug("harness label/name must be a concrete string"))
}

func containsSym(v value) bool {
	switch v := v.(type) {
	case sym:
		return true
	case symString:
		_, ok := v.concrete()
		return !ok
	case iface:
		return containsSym(v.v)
	case structure:
		for _, f := range v {
			if containsSym(f) {
				return true
			}
		}
	case array:
		for _, f := range v {
			if containsSym(f) {
				return true
			}
		}
	case []value:
		for _, f := range v {
			if containsSym(f) {
				return true
			}
		}
	}
	return false
}

// ---------------------------------------------------------------- inputs

func kindName(k types.BasicKind) string { return types.Typ[k].Name() }

// input creates the symbolic (or, in concrete mode, generated) input `name`.
func (i *interpreter) input(nameV value, k types.BasicKind, lo, hi int64, ranged bool) value {
	name := mustConcreteString(nameV)
	if n := i.nameCount[name]; n > 0 {
		i.nameCount[name] = n + 1
		name = fmt.Sprintf("%s#%d", name, n)
	} else {
		i.nameCount[name] = 1
	}
	if i.mode == Concrete {
		bitsV := i.inputFn(name, kindName(k), ranged, uint64(lo), uint64(hi))
		return concreteOf(bitsV, k)
	}
	var s smt.Sort
	switch {
	case k == types.Bool:
		s = smt.BoolSort
	case kindIsFloat(k):
		// floats are declared by their bits so that models are exact
		b := i.tb.Var(name, smt.BVSort(64))
		i.path.inputs = append(i.path.inputs, inputRec{name, b, types.Uint64})
		return i.mkSym(i.tb.AppI("bv2fp", 64, 0, b), k)
	default:
		s = smt.BVSort(kindWidth(k))
	}
	t := i.tb.Var(name, s)
	i.path.inputs = append(i.path.inputs, inputRec{name, t, k})
	v := sym{t: t, k: k}
	if ranged {
		var c *smt.Term
		w := kindWidth(k)
		if kindSigned(k) {
			c = i.tb.And(i.tb.App("bvsle", i.tb.BVConst(uint64(lo), w), t), i.tb.App("bvsle", t, i.tb.BVConst(uint64(hi), w)))
		} else {
			c = i.tb.And(i.tb.App("bvule", i.tb.BVConst(uint64(lo), w), t), i.tb.App("bvule", t, i.tb.BVConst(uint64(hi), w)))
		}
		i.path.pc = append(i.path.pc, c)
	}
	return v
}

func ext۰zz۰IntRange(fr *frame, a []value) value {
	lo, hi := int64(a[1].(int)), int64(a[2].(int))
	if lo > hi {
		panic(pathAbort{"empty range"})
	}
	return fr.i.input(a[0], types.Int, lo, hi, true)
}

// ByteIn(name, alphabet): a byte constrained to the alphabet by one disjunction (no forking).
func ext۰zz۰ByteIn(fr *frame, a []value) value {
	alpha := mustConcreteString(a[1])
	if len(alpha) == 0 {
		panic(pathAbort{"empty alphabet"})
	}
	i := fr.i
	if i.mode == Concrete {
		idx := i.input(a[0], types.Uint64, 0, int64(len(alpha)-1), true).(uint64)
		return alpha[idx]
	}
	v := i.input(a[0], types.Uint8, 0, 0, false)
	s, ok := v.(sym)
	if !ok {
		return v
	}
	var alts []*smt.Term
	for k := 0; k < len(alpha); k++ {
		alts = append(alts, i.tb.Eq(s.t, i.tb.BVConst(uint64(alpha[k]), 8)))
	}
	i.path.pc = append(i.path.pc, i.tb.Or(alts...))
	return v
}

func ext۰zz۰U64Range(fr *frame, a []value) value {
	lo, hi := a[1].(uint64), a[2].(uint64)
	if lo > hi {
		panic(pathAbort{"empty range"})
	}
	return fr.i.input(a[0], types.Uint64, int64(lo), int64(hi), true)
}

// Choice(name, n): a value in [0,n) that is concrete on every path (forked).
func ext۰zz۰Choice(fr *frame, a []value) value {
	n := a[1].(int)
	if n <= 0 {
		panic(pathAbort{"empty choice"})
	}
	v := fr.i.input(a[0], types.Int, 0, int64(n-1), true)
	return int(fr.i.concInt(v))
}

func ext۰zz۰Bytes(fr *frame, a []value) value {
	name := mustConcreteString(a[0])
	n := int(fr.i.concInt(a[1]))
	out := make([]value, n)
	for k := 0; k < n; k++ {
		out[k] = fr.i.input(fmt.Sprintf("%s[%d]", name, k), types.Uint8, 0, 0, false)
	}
	return out
}

func ext۰zz۰String(fr *frame, a []value) value {
	return mkString(ext۰zz۰Bytes(fr, a).([]value))
}

func ext۰zz۰Ite(fr *frame, a []value) value {
	switch c := a[0].(type) {
	case bool:
		if c {
			return a[1]
		}
		return a[2]
	case sym:
		return fr.i.iteVal(c.t, a[1], a[2])
	}
	panic(engineBug("Ite cond"))
}

// FormatObs renders an observed value identically in the engine and natively.
func formatObs(v value) string {
	switch v := v.(type) {
	case iface:
		return formatObs(v.v)
	case bool:
		return strconv.FormatBool(v)
	case int, int8, int16, int32, int64:
		return strconv.FormatInt(asInt64(v), 10)
	case uint, uint8, uint16, uint32, uint64, uintptr:
		return strconv.FormatUint(uint64(asInt64(v)), 10)
	case float64:
		return "f" + strconv.FormatUint(math.Float64bits(v), 16)
	case float32:
		return "f" + strconv.FormatUint(uint64(math.Float32bits(v)), 16)
	case string:
		return strconv.Quote(v)
	case []value:
		parts := make([]string, len(v))
		for k := range v {
			parts[k] = formatObs(v[k])
		}
		return "[" + strings.Join(parts, ",") + "]"
	}
	return fmt.Sprintf("<%T>", v)
}

func ext۰zz۰Observe(fr *frame, a []value) value {
	if fr.i.mode != Concrete {
		return nil
	}
	fr.i.res.observes = append(fr.i.res.observes, mustConcreteString(a[0])+"="+formatObs(a[1]))
	return nil
}

// ---------------------------------------------------------------- math

func ext۰math۰Float64frombits(fr *frame, args []value) value {
	switch x := args[0].(type) {
	case uint64:
		return math.Float64frombits(x)
	case sym:
		return fr.i.mkSym(fr.i.tb.AppI("bv2fp", 64, 0, x.t), types.Float64)
	}
	panic(engineBug("Float64frombits"))
}

func (i *interpreter) fpBits(x sym, w int) *smt.Term {
	tb := i.tb
	if x.t.Op == "bv2fp" && x.t.Args[0].S.W == w {
		// NaN payloads are preserved by Go on amd64 for plain moves
		return x.t.Args[0]
	}
	// one bit pattern per FP term: the same term always maps to the same bits
	b := tb.Var(fmt.Sprintf("$fpbits_%d", x.t.ID), smt.BVSort(w))
	c := tb.EqStruct(tb.AppI("bv2fp", w, 0, b), x.t)
	for _, q := range i.path.pc {
		if q == c {
			return b
		}
	}
	i.path.pc = append(i.path.pc, c)
	return b
}

func ext۰math۰Float64bits(fr *frame, args []value) value {
	switch x := args[0].(type) {
	case float64:
		return math.Float64bits(x)
	case sym:
		return fr.i.mkSym(fr.i.fpBits(x, 64), types.Uint64)
	}
	panic(engineBug("Float64bits"))
}

func ext۰math۰Float32frombits(fr *frame, args []value) value {
	switch x := args[0].(type) {
	case uint32:
		return math.Float32frombits(x)
	case sym:
		return fr.i.mkSym(fr.i.tb.AppI("bv2fp", 32, 0, x.t), types.Float32)
	}
	panic(engineBug("Float32frombits"))
}

func ext۰math۰Float32bits(fr *frame, args []value) value {
	switch x := args[0].(type) {
	case float32:
		return math.Float32bits(x)
	case sym:
		return fr.i.mkSym(fr.i.fpBits(x, 32), types.Uint32)
	}
	panic(engineBug("Float32bits"))
}

func fpUnary(op string, f func(float64) float64) externalFn {
	return func(fr *frame, args []value) value {
		switch x := args[0].(type) {
		case float64:
			return f(x)
		case sym:
			return fr.i.mkSym(fr.i.tb.App(op, x.t), types.Float64)
		}
		panic(engineBug(op))
	}
}

func fpConcrete1(f func(float64) float64) externalFn {
	return func(fr *frame, args []value) value {
		if x, ok := args[0].(float64); ok {
			return f(x)
		}
		panic(unsupported("transcendental math function on symbolic float"))
	}
}

func fpConcrete2(f func(float64, float64) float64) externalFn {
	return func(fr *frame, args []value) value {
		x, ok1 := args[0].(float64)
		y, ok2 := args[1].(float64)
		if ok1 && ok2 {
			return f(x, y)
		}
		panic(unsupported("math function on symbolic float"))
	}
}

func ext۰math۰IsNaN(fr *frame, args []value) value {
	switch x := args[0].(type) {
	case float64:
		return math.IsNaN(x)
	case sym:
		return fr.i.mkSym(fr.i.tb.App("fp.isNaN", x.t), types.Bool)
	}
	panic(engineBug("IsNaN"))
}

func ext۰math۰IsInf(fr *frame, args []value) value {
	sign := args[1].(int)
	switch x := args[0].(type) {
	case float64:
		return math.IsInf(x, sign)
	case sym:
		tb := fr.i.tb
		inf := tb.App("fp.isInfinite", x.t)
		switch {
		case sign > 0:
			inf = tb.And(inf, tb.App("fp.gt", x.t, tb.FPConst64(0)))
		case sign < 0:
			inf = tb.And(inf, tb.App("fp.lt", x.t, tb.FPConst64(0)))
		}
		return fr.i.mkSym(inf, types.Bool)
	}
	panic(engineBug("IsInf"))
}

// math.Max / math.Min (Go semantics: NaN if either NaN; Max(+0,-0)=+0)
func ext۰math۰Max(fr *frame, args []value) value {
	x, ok1 := args[0].(float64)
	y, ok2 := args[1].(float64)
	if ok1 && ok2 {
		return math.Max(x, y)
	}
	tb := fr.i.tb
	a, b := fr.i.term(args[0]), fr.i.term(args[1])
	nan := tb.Or(tb.App("fp.isNaN", a), tb.App("fp.isNaN", b))
	bothZero := tb.And(tb.App("fp.isZero", a), tb.App("fp.isZero", b))
	zeroPick := tb.Ite(tb.App("fp.isNegative", a), b, a)
	r := tb.Ite(nan, tb.FPConst64(math.NaN()), tb.Ite(bothZero, zeroPick, tb.Ite(tb.App("fp.gt", a, b), a, b)))
	return fr.i.mkSym(r, types.Float64)
}

func ext۰math۰Min(fr *frame, args []value) value {
	x, ok1 := args[0].(float64)
	y, ok2 := args[1].(float64)
	if ok1 && ok2 {
		return math.Min(x, y)
	}
	tb := fr.i.tb
	a, b := fr.i.term(args[0]), fr.i.term(args[1])
	nan := tb.Or(tb.App("fp.isNaN", a), tb.App("fp.isNaN", b))
	bothZero := tb.And(tb.App("fp.isZero", a), tb.App("fp.isZero", b))
	zeroPick := tb.Ite(tb.App("fp.isNegative", a), a, b)
	r := tb.Ite(nan, tb.FPConst64(math.NaN()), tb.Ite(bothZero, zeroPick, tb.Ite(tb.App("fp.lt", a, b), a, b)))
	return fr.i.mkSym(r, types.Float64)
}

func bitsFn(w int, what string) externalFn {
	return func(fr *frame, args []value) value {
		if s, ok := args[0].(sym); ok {
			tb := fr.i.tb
			var t *smt.Term
			switch what {
			case "clz":
				t = tb.Clz(s.t)
			case "ctz":
				t = tb.Ctz(s.t)
			case "len":
				t = tb.App("bvsub", tb.BVConst(uint64(w), w), tb.Clz(s.t))
			}
			if w < 64 {
				t = tb.ZeroExt(64-w, t)
			}
			return fr.i.mkSym(t, types.Int)
		}
		x := uint64(asInt64(args[0]))
		switch what {
		case "clz":
			return bits.LeadingZeros64(x) - (64 - w)
		case "ctz":
			if x == 0 {
				return w
			}
			return bits.TrailingZeros64(x)
		}
		return bits.Len64(x)
	}
}

// ---------------------------------------------------------------- bytes / strings

func seqBytes(v value) []value {
	switch v := v.(type) {
	case []value:
		return v
	case string, symString:
		return strBytes(v)
	}
	panic(engineBug(fmt.Sprintf("seqBytes %T", v)))
}

func ext۰bytealg۰IndexByte(fr *frame, args []value) value {
	s := seqBytes(args[0])
	c := args[1]
	for k, b := range s {
		if fr.i.truth(equalsV(fr.i, nil, b, c)) {
			return k
		}
	}
	return -1
}

func ext۰bytealg۰Equal(fr *frame, args []value) value {
	a, b := seqBytes(args[0]), seqBytes(args[1])
	return fr.i.strEq(symString{a}, symString{b})
}

func ext۰bytealg۰Compare(fr *frame, args []value) value {
	a, b := seqBytes(args[0]), seqBytes(args[1])
	i := fr.i
	if i.truth(i.strLess(a, b, false)) {
		return -1
	}
	if i.truth(i.strEq(symString{a}, symString{b})) {
		return 0
	}
	return 1
}

func ext۰bytealg۰Count(fr *frame, args []value) value {
	s := seqBytes(args[0])
	c := args[1]
	n := 0
	for _, b := range s {
		if fr.i.truth(equalsV(fr.i, nil, b, c)) {
			n++
		}
	}
	return n
}

func ext۰bytealg۰Index(fr *frame, args []value) value {
	a, b := seqBytes(args[0]), seqBytes(args[1])
	for k := 0; k+len(b) <= len(a); k++ {
		if fr.i.truth(fr.i.strEq(symString{a[k : k+len(b)]}, symString{b})) {
			return k
		}
	}
	return -1
}

func (i *interpreter) caseByte(b value, upper bool) value {
	switch c := b.(type) {
	case uint8:
		if upper {
			if 'a' <= c && c <= 'z' {
				return c - 32
			}
		} else if 'A' <= c && c <= 'Z' {
			return c + 32
		}
		return c
	case sym:
		tb := i.tb
		lo, hi := uint64('A'), uint64('Z')
		d := tb.BVConst(32, 8)
		op := "bvadd"
		if upper {
			lo, hi = 'a', 'z'
			op = "bvsub"
		}
		in := tb.And(tb.App("bvule", tb.BVConst(lo, 8), c.t), tb.App("bvule", c.t, tb.BVConst(hi, 8)))
		return i.mkSym(tb.Ite(in, tb.App(op, c.t, d), c.t), types.Uint8)
	}
	panic(engineBug("caseByte"))
}

// caseFn: ToLower/ToUpper.  Symbolic bytes are required to be ASCII.
func caseFn(upper bool) externalFn {
	return func(fr *frame, args []value) value {
		i := fr.i
		_, isSlice := args[0].([]value)
		if s, ok := args[0].(string); ok {
			if upper {
				return strings.ToUpper(s)
			}
			return strings.ToLower(s)
		}
		src := seqBytes(args[0])
		out := make([]value, len(src))
		allConc := true
		for k, b := range src {
			if s, ok := b.(sym); ok {
				allConc = false
				if !i.decide(i.tb.App("bvult", s.t, i.tb.BVConst(0x80, 8))) {
					panic(unsupported("case mapping of symbolic non-ASCII byte"))
				}
			} else if b.(uint8) >= 0x80 {
				if !isSlice {
					panic(unsupported("case mapping of mixed symbolic/non-ASCII string"))
				}
			}
			out[k] = i.caseByte(b, upper)
		}
		if isSlice {
			if allConc {
				bs := make([]byte, len(src))
				for k := range src {
					bs[k] = src[k].(uint8)
				}
				var r []byte
				if upper {
					r = []byte(strings.ToUpper(string(bs)))
				} else {
					r = []byte(strings.ToLower(string(bs)))
				}
				o := make([]value, len(r))
				for k := range r {
					o[k] = r[k]
				}
				return o
			}
			return out
		}
		return mkString(out)
	}
}

func ext۰strings۰EqualFold(fr *frame, args []value) value {
	i := fr.i
	a, b := seqBytes(args[0]), seqBytes(args[1])
	sa, oka := symString{a}.concrete()
	sb, okb := symString{b}.concrete()
	if oka && okb {
		return strings.EqualFold(sa, sb)
	}
	if len(a) != len(b) {
		// only ASCII supported symbolically
		return false
	}
	la, lb := make([]value, len(a)), make([]value, len(b))
	for k := range a {
		for _, x := range []value{a[k], b[k]} {
			if s, ok := x.(sym); ok {
				if !i.decide(i.tb.App("bvult", s.t, i.tb.BVConst(0x80, 8))) {
					panic(unsupported("EqualFold of symbolic non-ASCII byte"))
				}
			}
		}
		la[k], lb[k] = i.caseByte(a[k], false), i.caseByte(b[k], false)
	}
	return i.strEq(symString{la}, symString{lb})
}

// strings.Builder: struct{ addr *Builder; buf []byte }
func builderBuf(args []value) *value {
	p := args[0].(*value)
	st := (*p).(structure)
	return &st[1]
}

func ext۰Builder۰WriteString(fr *frame, args []value) value {
	buf := builderBuf(args)
	add := seqBytes(args[1])
	cur, _ := (*buf).([]value)
	*buf = append(cur, add...)
	return tuple{len(add), iface{}}
}

func ext۰Builder۰WriteByte(fr *frame, args []value) value {
	buf := builderBuf(args)
	cur, _ := (*buf).([]value)
	*buf = append(cur, args[1])
	return iface{}
}

func ext۰Builder۰WriteRune(fr *frame, args []value) value {
	buf := builderBuf(args)
	cur, _ := (*buf).([]value)
	r, ok := args[1].(int32)
	if !ok {
		s := args[1].(sym)
		if !fr.i.decide(fr.i.tb.App("bvult", s.t, fr.i.tb.BVConst(0x80, 32))) {
			panic(unsupported("WriteRune of symbolic non-ASCII rune"))
		}
		*buf = append(cur, fr.i.mkSym(fr.i.tb.Extract(7, 0, s.t), types.Uint8))
		return tuple{1, iface{}}
	}
	bs := []byte(string(r))
	for _, b := range bs {
		cur = append(cur, b)
	}
	*buf = cur
	return tuple{len(bs), iface{}}
}

func ext۰Builder۰String(fr *frame, args []value) value {
	buf := builderBuf(args)
	cur, _ := (*buf).([]value)
	return mkString(cur)
}

func ext۰Builder۰Len(fr *frame, args []value) value {
	buf := builderBuf(args)
	cur, _ := (*buf).([]value)
	return len(cur)
}

func ext۰Builder۰Reset(fr *frame, args []value) value {
	buf := builderBuf(args)
	*buf = []value(nil)
	return nil
}

// ---------------------------------------------------------------- fmt / errors

// findMethod is a non-panicking method lookup by name on a dynamic type.
func (i *interpreter) findMethod(t types.Type, name string) *ssa.Function {
	ms := i.prog.MethodSets.MethodSet(t)
	for k := 0; k < ms.Len(); k++ {
		sel := ms.At(k)
		if sel.Obj().Name() == name {
			return i.prog.MethodValue(sel)
		}
	}
	return nil
}

// nativeArg converts a concrete value to a Go value printable by fmt.
func (i *interpreter) nativeArg(v value) (interface{}, bool) {
	switch v := v.(type) {
	case iface:
		if v.t == nil {
			return nil, true
		}
		// error / Stringer values: call their method
		if m := i.findMethod(v.t, "Error"); m != nil {
			r := callSSA(i, nil, token.NoPos, m, []value{v.v}, nil)
			return i.nativeArg(r)
		}
		if m := i.findMethod(v.t, "String"); m != nil && len(m.Params) == 1 {
			r := callSSA(i, nil, token.NoPos, m, []value{v.v}, nil)
			return i.nativeArg(r)
		}
		return i.nativeArg(v.v)
	case bool, int, int8, int16, int32, int64, uint, uint8, uint16, uint32, uint64, uintptr, float32, float64, string:
		return v, true
	case symString:
		s, ok := v.concrete()
		return s, ok
	case []value:
		// []byte or []string etc
		allBytes := len(v) > 0
		for _, e := range v {
			if _, ok := e.(uint8); !ok {
				allBytes = false
			}
		}
		if allBytes {
			b := make([]byte, len(v))
			for k := range v {
				b[k] = v[k].(uint8)
			}
			return b, true
		}
		out := make([]interface{}, len(v))
		for k := range v {
			x, ok := i.nativeArg(v[k])
			if !ok {
				return nil, false
			}
			out[k] = x
		}
		return out, true
	case *value:
		if v == nil {
			return nil, true
		}
		return fmt.Sprintf("%p", v), true
	case opaque:
		return "<" + v.what + ">", true
	}
	return nil, false
}

// symFormat renders a format with symbolic string arguments for the simple
// verbs %s/%v/%d(concrete), keeping symbolic bytes.
func (i *interpreter) symFormat(format string, args []value) (value, bool) {
	var out []value
	ai := 0
	emit := func(s string) {
		for k := 0; k < len(s); k++ {
			out = append(out, s[k])
		}
	}
	for k := 0; k < len(format); k++ {
		c := format[k]
		if c != '%' {
			out = append(out, c)
			continue
		}
		k++
		if k >= len(format) {
			return nil, false
		}
		switch format[k] {
		case '%':
			out = append(out, byte('%'))
		case 's', 'v', 'd', 'q':
			if ai >= len(args) {
				return nil, false
			}
			a := args[ai]
			ai++
			if itf, ok := a.(iface); ok {
				a = itf.v
				if itf.t == nil {
					emit("<nil>")
					continue
				}
				if m := i.findMethod(itf.t, "Error"); m != nil {
					a = callSSA(i, nil, token.NoPos, m, []value{itf.v}, nil)
				}
			}
			switch a := a.(type) {
			case symString:
				out = append(out, a.b...)
			case sym:
				return nil, false
			default:
				n, ok := i.nativeArg(a)
				if !ok {
					return nil, false
				}
				emit(fmt.Sprintf("%"+string(format[k]), n))
			}
		default:
			return nil, false
		}
	}
	return mkString(out), true
}

func (i *interpreter) sprintf(format value, rest []value) value {
	f, ok := format.(string)
	if !ok {
		return opaque{"formatted string"}
	}
	natives := make([]interface{}, len(rest))
	all := true
	for k, a := range rest {
		n, ok := i.nativeArg(a)
		if !ok {
			all = false
			break
		}
		natives[k] = n
	}
	if all {
		return fmt.Sprintf(f, natives...)
	}
	if v, ok := i.symFormat(f, rest); ok {
		return v
	}
	// formatting is never the subject of a property: an unformattable message
	// becomes a fixed placeholder string
	return "<formatted:" + f + ">"
}

func ext۰fmt۰Sprintf(fr *frame, args []value) value {
	rest, _ := args[1].([]value)
	return fr.i.sprintf(args[0], rest)
}

func ext۰fmt۰Sprint(fr *frame, args []value) value {
	rest, _ := args[0].([]value)
	f := strings.Repeat("%v", len(rest))
	return fr.i.sprintf(f, rest)
}

func (i *interpreter) newError(msg value) value {
	if i.errorStringPtr == nil {
		ep := i.prog.ImportedPackage("errors")
		if ep == nil {
			panic(unsupported("errors package not loaded"))
		}
		i.errorStringPtr = types.NewPointer(ep.Type("errorString").Object().Type())
	}
	var cell value = structure{msg}
	return iface{t: i.errorStringPtr, v: &cell}
}

func ext۰fmt۰Errorf(fr *frame, args []value) value {
	rest, _ := args[1].([]value)
	msg := fr.i.sprintf(args[0], rest)
	if _, ok := msg.(opaque); ok {
		msg = "<error>"
	}
	return fr.i.newError(msg)
}

func ext۰errors۰Is(fr *frame, args []value) value {
	i := fr.i
	err, target := args[0].(iface), args[1].(iface)
	for depth := 0; depth < 16; depth++ {
		if err.t == nil {
			return target.t == nil
		}
		if sameType(err.t, target.t) {
			if _, isPtr := err.v.(*value); isPtr {
				if err.v.(*value) == target.v.(*value) {
					return true
				}
			} else if b, ok := equalsV(i, err.t, err.v, target.v).(bool); ok && b {
				return true
			}
		}
		m := i.findMethod(err.t, "Unwrap")
		if m == nil || m.Signature.Results().Len() != 1 {
			return false
		}
		r := callSSA(i, nil, token.NoPos, m, []value{err.v}, nil)
		nx, ok := r.(iface)
		if !ok {
			return false
		}
		err = nx
	}
	return false
}

// ---------------------------------------------------------------- sync

func ext۰sync۰Once۰Do(fr *frame, args []value) value {
	p := args[0].(*value)
	st := (*p).(structure)
	// field 0: done (atomic.Uint32 struct{_ noCopy; v uint32}) in go1.23
	switch d := st[0].(type) {
	case structure:
		if d[len(d)-1].(uint32) != 0 {
			return nil
		}
		d[len(d)-1] = uint32(1)
	case uint32:
		if d != 0 {
			return nil
		}
		st[0] = uint32(1)
	}
	call(fr.i, fr, token.NoPos, args[1], nil)
	return nil
}

func ext۰sync۰Pool۰Put(fr *frame, args []value) value {
	if fr.i.cfg.PoolReuse {
		p := args[0].(*value)
		if fr.i.pools == nil {
			fr.i.pools = map[*value][]value{}
		}
		fr.i.pools[p] = append(fr.i.pools[p], args[1])
	}
	return nil
}

func ext۰sync۰Pool۰Get(fr *frame, args []value) value {
	p := args[0].(*value)
	if fr.i.cfg.PoolReuse {
		// adversarial (and legal) pool schedule: hand back the most recently returned object
		if l := fr.i.pools[p]; len(l) > 0 {
			v := l[len(l)-1]
			fr.i.pools[p] = l[:len(l)-1]
			return v
		}
	}
	st := (*p).(structure)
	newFn := st[len(st)-1]
	switch f := newFn.(type) {
	case *ssa.Function:
		if f == nil {
			return iface{}
		}
	}
	return call(fr.i, fr, token.NoPos, newFn, nil)
}

func atomicLoad(fr *frame, args []value) value {
	p := args[0].(*value)
	if p == nil {
		panic(rtError("invalid memory address or nil pointer dereference"))
	}
	return *p
}

func atomicStore(fr *frame, args []value) value {
	p := args[0].(*value)
	if p == nil {
		panic(rtError("invalid memory address or nil pointer dereference"))
	}
	*p = args[1]
	return nil
}

func atomicAdd(fr *frame, args []value) value {
	p := args[0].(*value)
	*p = binop(fr.i, token.ADD, nil, *p, args[1])
	return *p
}

func atomicSwap(fr *frame, args []value) value {
	p := args[0].(*value)
	old := *p
	*p = args[1]
	return old
}

func atomicCAS(fr *frame, args []value) value {
	p := args[0].(*value)
	if fr.i.truth(equalsV(fr.i, nil, *p, args[1])) {
		*p = args[2]
		return true
	}
	return false
}

// atomic.Value: struct{ v any }
func ext۰atomic۰Value۰Load(fr *frame, args []value) value {
	p := args[0].(*value)
	return (*p).(structure)[0]
}

func ext۰atomic۰Value۰Store(fr *frame, args []value) value {
	p := args[0].(*value)
	(*p).(structure)[0] = args[1]
	return nil
}

// ---------------------------------------------------------------- time

// The clock is deterministic: 2023-11-14T22:13:20Z plus 1ms per reading,
// unless a harness stubs time.Now itself.
func (i *interpreter) clockNano() int64 {
	i.clock++
	return 1_700_000_000_000_000_000 + i.clock*1_000_000
}

func ext۰time۰now(fr *frame, args []value) value {
	n := fr.i.clockNano()
	return tuple{int64(n / 1e9), int32(n % 1e9), int64(n)}
}

// time.Now builds Time{wall, ext, loc} without a monotonic reading (UTC-like Local).
func ext۰time۰Now(fr *frame, args []value) value {
	n := fr.i.clockNano()
	sec := n/1e9 + 62135596800 // unix to internal
	nsec := n % 1e9
	localLoc := fr.i.globalAddr(fr.i.prog.ImportedPackage("time").Var("localLoc"))
	return structure{uint64(nsec), int64(sec), localLoc}
}

// ---------------------------------------------------------------- sort

// sort.Slice / SliceStable: stable insertion sort calling the real less closure.
func ext۰sort۰Slice(fr *frame, args []value) value {
	itf := args[0].(iface)
	s, _ := itf.v.([]value)
	less := args[1]
	i := fr.i
	// less takes indices, so sort a permutation by moving elements in place.
	for a := 1; a < len(s); a++ {
		for b := a; b > 0; b-- {
			r := call(i, fr, token.NoPos, less, []value{b, b - 1})
			if !i.truth(r) {
				break
			}
			s[b], s[b-1] = s[b-1], s[b]
		}
	}
	return nil
}

func ext۰sort۰Basic(fr *frame, args []value) value {
	s := args[0].([]value)
	if containsSym(s) {
		i := fr.i
		for a := 1; a < len(s); a++ {
			for b := a; b > 0; b-- {
				if !i.truth(binop(i, token.LSS, nil, s[b], s[b-1])) {
					break
				}
				s[b], s[b-1] = s[b-1], s[b]
			}
		}
		return nil
	}
	sort.SliceStable(s, func(a, b int) bool {
		return binop(fr.i, token.LSS, nil, s[a], s[b]).(bool)
	})
	return nil
}

var _ = unsafe.Pointer(nil)

// ---------------------------------------------------------------- reflect.DeepEqual

func (i *interpreter) deepEqual(a, b value, depth int) bool {
	if depth > 50 {
		panic(unsupported("reflect.DeepEqual: too deep"))
	}
	switch x := a.(type) {
	case iface:
		y, ok := b.(iface)
		if !ok {
			return false
		}
		if x.t == nil || y.t == nil {
			return x.t == nil && y.t == nil
		}
		if !types.Identical(x.t, y.t) {
			return false
		}
		return i.deepEqual(x.v, y.v, depth+1)
	case []value:
		y, ok := b.([]value)
		if !ok || (x == nil) != (y == nil) || len(x) != len(y) {
			return false
		}
		for k := range x {
			if !i.deepEqual(x[k], y[k], depth+1) {
				return false
			}
		}
		return true
	case structure:
		y, ok := b.(structure)
		if !ok || len(x) != len(y) {
			return false
		}
		for k := range x {
			if !i.deepEqual(x[k], y[k], depth+1) {
				return false
			}
		}
		return true
	case array:
		y, ok := b.(array)
		if !ok || len(x) != len(y) {
			return false
		}
		for k := range x {
			if !i.deepEqual(x[k], y[k], depth+1) {
				return false
			}
		}
		return true
	case *value:
		y, ok := b.(*value)
		if !ok {
			return false
		}
		if x == y {
			return true
		}
		if x == nil || y == nil {
			return false
		}
		return i.deepEqual(*x, *y, depth+1)
	case *smap:
		y, ok := b.(*smap)
		if !ok || (x == nil) != (y == nil) {
			return false
		}
		if x.len() != y.len() {
			return false
		}
		if x == nil {
			return true
		}
		for _, e := range x.entries {
			v, ok := y.lookup(i, e.key)
			if !ok || !i.deepEqual(e.val, v, depth+1) {
				return false
			}
		}
		return true
	case *ssa.Function, *closure:
		return false
	}
	if kindOf(a) != types.Invalid || isString(a) {
		if kindOf(b) == types.Invalid && !isString(b) {
			return false
		}
		return i.truth(equalsV(i, nil, a, b))
	}
	panic(unsupported(fmt.Sprintf("reflect.DeepEqual on %T", a)))
}

func init() {
	externals["reflect.DeepEqual"] = func(fr *frame, a []value) value {
		return fr.i.deepEqual(a[0], a[1], 0)
	}
}
