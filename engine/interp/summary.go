package interp

// Summaries of pure scalar functions: the function is explored once on fresh
// symbolic parameters; its paths are merged into one ite-term per result.  The
// summary is computed from the current SSA, so an edit inside the summarised
// function changes the formula.

import (
	"fmt"
	"go/token"
	"go/types"

	"gosym/smt"

	"golang.org/x/tools/go/ssa"
)

type sumPath struct {
	pc  *smt.Term
	res []*smt.Term
}

type summary struct {
	sp      []sumPath
	params  []*smt.Term
	kinds   []types.BasicKind
	results []*smt.Term // one per result
	rkinds  []types.BasicKind
	paths   int
}

func (i *interpreter) callSummary(fn *ssa.Function, args []value) (value, bool) {
	anySym := false
	for _, a := range args {
		if isSym(a) {
			anySym = true
		} else if kindOf(a) == types.Invalid {
			return nil, false
		}
	}
	if !anySym {
		return nil, false
	}
	s := i.summaries[fn]
	if s == nil {
		s = i.buildSummary(fn)
		i.summaries[fn] = s
	}
	m := map[*smt.Term]*smt.Term{}
	for k, p := range s.params {
		m[p] = i.term(args[k])
	}
	memo := map[*smt.Term]*smt.Term{}
	if i.sh.SummarizeConc[fn.String()] && !i.cfg.NoSummConc {
		// fork over the summary's paths: one cheap feasibility query per path,
		// the path condition is a conjunction of the function's own branch atoms
		conds := make([]*smt.Term, len(s.sp))
		for k := range s.sp {
			conds[k] = i.tb.Subst(s.sp[k].pc, m, memo)
		}
		k := i.decideN(conds)
		var outs []value
		for j, r := range s.sp[k].res {
			outs = append(outs, i.mkSym(i.tb.Subst(r, m, memo), s.rkinds[j]))
		}
		if len(outs) == 1 {
			return outs[0], true
		}
		return tuple(outs), true
	}
	var outs []value
	for k, r := range s.results {
		outs = append(outs, i.mkSym(i.tb.Subst(r, m, memo), s.rkinds[k]))
	}
	if len(outs) == 1 {
		return outs[0], true
	}
	return tuple(outs), true
}

func (i *interpreter) buildSummary(fn *ssa.Function) *summary {
	s := &summary{}
	sig := fn.Signature
	var args []value
	for k := 0; k < sig.Params().Len(); k++ {
		kd := basicKindOfType(sig.Params().At(k).Type())
		if kd == types.Invalid || kd == types.String {
			panic(unsupported("summarise: non-scalar parameter in " + fn.String()))
		}
		var srt smt.Sort
		switch {
		case kd == types.Bool:
			srt = smt.BoolSort
		case kindIsFloat(kd):
			srt = smt.FPSort(kindWidth(kd))
		default:
			srt = smt.BVSort(kindWidth(kd))
		}
		p := i.tb.Var(fmt.Sprintf("$sum_%s_%d", fn.Name(), k), srt)
		s.params = append(s.params, p)
		s.kinds = append(s.kinds, kd)
		args = append(args, sym{t: p, k: kd})
	}
	for k := 0; k < sig.Results().Len(); k++ {
		kd := basicKindOfType(sig.Results().At(k).Type())
		if kd == types.Invalid || kd == types.String {
			panic(unsupported("summarise: non-scalar result in " + fn.String()))
		}
		s.rkinds = append(s.rkinds, kd)
	}
	// nested exploration with a private path state and worklist
	savedPath, savedWL, savedRes := i.path, i.sh2, i.res
	savedDepth := i.callDepth
	i.summBuilding = fn
	defer func() {
		i.path, i.sh2, i.res = savedPath, savedWL, savedRes
		i.callDepth = savedDepth
		i.summBuilding = nil
	}()
	local := newWorklist()
	i.sh2 = local
	local.items = append(local.items, nil)
	type outc struct {
		pc  *smt.Term
		pcs []*smt.Term
		res []*smt.Term
	}
	var outs []outc
	for len(local.items) > 0 {
		n := len(local.items)
		prefix := local.items[n-1]
		local.items = local.items[:n-1]
		i.path = &pathState{prefix: prefix}
		i.res = newPathResult()
		var r value
		func() {
			defer func() {
				if p := recover(); p != nil {
					if _, ok := p.(pathAbort); ok {
						r = nil
						return
					}
					if isAbort(p) {
						panic(p)
					}
					panic(unsupported(fmt.Sprintf("summarised function %s can panic: %v", fn.Name(), panicString(p))))
				}
			}()
			r = callSSA(i, nil, token.NoPos, fn, args, nil)
			if r == nil {
				r = tuple{}
			}
		}()
		if r == nil {
			continue
		}
		for f := range i.res.funcs {
			savedRes.funcs[f] = true
		}
		var rs []*smt.Term
		switch r := r.(type) {
		case tuple:
			for _, x := range r {
				rs = append(rs, i.term(x))
			}
		default:
			rs = append(rs, i.term(r))
		}
		outs = append(outs, outc{pc: i.tb.And(i.path.pc...), pcs: append([]*smt.Term(nil), i.path.pc...), res: rs})
		if len(outs) > 4096 {
			panic(unsupported("summary of " + fn.Name() + " has too many paths"))
		}
	}
	if len(outs) == 0 {
		panic(unsupported("summary of " + fn.Name() + " has no path"))
	}
	s.paths = len(outs)
	for _, o := range outs {
		s.sp = append(s.sp, sumPath{pc: o.pc, res: o.res})
	}
	// merge the paths into a decision tree (nested ite, linear in the number of
	// branch atoms) rather than a flat chain over whole path conditions
	var build func(idx []int, depth int, k int) *smt.Term
	build = func(idx []int, depth int, k int) *smt.Term {
		if len(idx) == 1 {
			return outs[idx[0]].res[k]
		}
		// all paths in idx agree on pcs[:depth]; split on the atom at depth
		var atom *smt.Term
		for _, j := range idx {
			if depth < len(outs[j].pcs) {
				a := outs[j].pcs[depth]
				if a.Op == "not" {
					a = a.Args[0]
				}
				atom = a
				break
			}
		}
		if atom == nil {
			return outs[idx[0]].res[k]
		}
		var T, F, other []int
		for _, j := range idx {
			if depth >= len(outs[j].pcs) {
				other = append(other, j)
				continue
			}
			a := outs[j].pcs[depth]
			switch {
			case a == atom:
				T = append(T, j)
			case a.Op == "not" && a.Args[0] == atom:
				F = append(F, j)
			default:
				other = append(other, j)
			}
		}
		if len(other) > 0 {
			// irregular shape: fall back to the flat chain for this subtree
			t := outs[idx[len(idx)-1]].res[k]
			for x := len(idx) - 2; x >= 0; x-- {
				t = i.tb.Ite(outs[idx[x]].pc, outs[idx[x]].res[k], t)
			}
			return t
		}
		switch {
		case len(T) == 0:
			return build(F, depth+1, k)
		case len(F) == 0:
			return build(T, depth+1, k)
		}
		return i.tb.Ite(atom, build(T, depth+1, k), build(F, depth+1, k))
	}
	all := make([]int, len(outs))
	for j := range all {
		all[j] = j
	}
	for k := range s.rkinds {
		s.results = append(s.results, build(all, 0, k))
	}
	savedRes.note(fmt.Sprintf("summary %s: %d paths merged", fn.String(), s.paths))
	return s
}
