// Copyright 2013 The Go Authors. All rights reserved.
// Use of this source code is governed by a BSD-style
// license that can be found in the LICENSE file.
//
// Derived from golang.org/x/tools/go/ssa/interp (v0.29.0); extended with
// symbolic scalars, symbolic-content strings and deterministic maps.

package interp

// Values
//
// All interpreter values are "boxed" in the empty interface, value.
// The range of possible dynamic types within value are:
//
// - bool
// - numbers (all built-in int/float/complex types are distinguished)
// - string
// - sym --- a symbolic scalar (bool, integer or float) carried as an SMT term
// - symString --- a string of concrete length whose bytes may be symbolic
// - *smap --- maps (insertion ordered, symbolic keys compared by forking)
// - chan value
// - []value --- slices
// - iface --- interfaces.
// - structure --- structs.  Fields are ordered and accessed by numeric indices.
// - array --- arrays.
// - *value --- pointers.  Careful: *value is a distinct type from *array etc.
// - *ssa.Function \
//   *ssa.Builtin   } --- functions.  A nil 'func' is always of type *ssa.Function.
//   *closure      /
// - tuple --- as returned by Return, Next, "value,ok" modes, etc.
// - iter --- iterators from 'range' over map or string.
// - bad --- a poison pill for locals that have gone out of scope.
// - poison --- result of an unmodellable call during package initialisation.
// - **deferred -- the address of a frame's defer stack for a Defer._Stack.

import (
	"bytes"
	"fmt"
	"go/types"
	"math"
	"strings"
	"unsafe"

	"gosym/smt"

	"golang.org/x/tools/go/ssa"
)

type value interface{}

type tuple []value

type array []value

type iface struct {
	t types.Type // never an "untyped" type
	v value
}

type structure []value

// sym is a symbolic scalar.
type sym struct {
	t *smt.Term
	k types.BasicKind
}

// symString is a string with concrete length and possibly symbolic bytes
// (each element is uint8 or sym of kind Uint8).
type symString struct {
	b []value
}

type poison struct{ why string }

// opaque is a value that can be stored and passed but not inspected
// (results of logging/formatting stubs).
type opaque struct{ what string }

// For map, array, *array, slice, string or channel.
type iter interface {
	// next returns a Tuple (key, value, ok).
	next() tuple
}

type closure struct {
	Fn  *ssa.Function
	Env []value
}

type bad struct{}

// ---------------------------------------------------------------- maps

type mentry struct {
	key, val value
	deleted  bool
}

type smap struct {
	keyType types.Type
	entries []*mentry
	idx     map[string]*mentry
	nsym    int
	n       int
}

func makeMap(kt types.Type, reserve int64) value {
	return &smap{keyType: kt, idx: map[string]*mentry{}}
}

// canonKey returns a canonical string of a fully concrete comparable value.
func canonKey(v value, sb *strings.Builder) bool {
	switch v := v.(type) {
	case bool, int, int8, int16, int32, int64, uint, uint8, uint16, uint32, uint64, uintptr:
		fmt.Fprintf(sb, "%T:%v;", v, v)
	case float32:
		fmt.Fprintf(sb, "f32:%x;", math.Float32bits(v))
	case float64:
		if v == 0 {
			v = 0 // +0 == -0
		}
		fmt.Fprintf(sb, "f64:%x;", math.Float64bits(v))
	case complex64, complex128:
		fmt.Fprintf(sb, "c:%v;", v)
	case string:
		fmt.Fprintf(sb, "s%d:%s;", len(v), v)
	case symString:
		s, ok := v.concrete()
		if !ok {
			return false
		}
		fmt.Fprintf(sb, "s%d:%s;", len(s), s)
	case *value:
		fmt.Fprintf(sb, "p:%p;", v)
	case chan value:
		fmt.Fprintf(sb, "ch:%p;", v)
	case unsafe.Pointer:
		fmt.Fprintf(sb, "up:%p;", v)
	case structure:
		sb.WriteString("{")
		for _, f := range v {
			if !canonKey(f, sb) {
				return false
			}
		}
		sb.WriteString("}")
	case array:
		sb.WriteString("[")
		for _, f := range v {
			if !canonKey(f, sb) {
				return false
			}
		}
		sb.WriteString("]")
	case iface:
		if v.t == nil {
			sb.WriteString("nil;")
			return true
		}
		sb.WriteString("i:" + v.t.String() + ":")
		return canonKey(v.v, sb)
	case *ssa.Function, *closure:
		fmt.Fprintf(sb, "fn:%p;", v)
	default:
		return false
	}
	return true
}

func (m *smap) find(i *interpreter, k value) *mentry {
	if m == nil {
		return nil
	}
	var sb strings.Builder
	conc := canonKey(k, &sb)
	if conc && m.nsym == 0 {
		return m.idx[sb.String()]
	}
	if conc {
		if e := m.idx[sb.String()]; e != nil {
			return e
		}
	}
	for _, e := range m.entries {
		if e.deleted {
			continue
		}
		if conc {
			var sb2 strings.Builder
			if canonKey(e.key, &sb2) {
				continue // concrete vs concrete already settled through idx
			}
		}
		if i.truth(equalsV(i, m.keyType, k, e.key)) {
			return e
		}
	}
	return nil
}

func (m *smap) lookup(i *interpreter, k value) (value, bool) {
	if e := m.find(i, k); e != nil {
		return e.val, true
	}
	return nil, false
}

func (m *smap) insert(i *interpreter, k, v value) {
	if m == nil {
		panic(rtError("assignment to entry in nil map"))
	}
	if e := m.find(i, k); e != nil {
		e.val = v
		return
	}
	e := &mentry{key: k, val: v}
	m.entries = append(m.entries, e)
	var sb strings.Builder
	if canonKey(k, &sb) {
		m.idx[sb.String()] = e
	} else {
		m.nsym++
	}
	m.n++
}

func (m *smap) delete(i *interpreter, k value) {
	if m == nil {
		return
	}
	e := m.find(i, k)
	if e == nil {
		return
	}
	e.deleted = true
	m.n--
	var sb strings.Builder
	if canonKey(e.key, &sb) {
		delete(m.idx, sb.String())
	} else {
		m.nsym--
	}
	// compact
	out := m.entries[:0:0]
	for _, x := range m.entries {
		if !x.deleted {
			out = append(out, x)
		}
	}
	m.entries = out
}

func (m *smap) len() int {
	if m == nil {
		return 0
	}
	return m.n
}

type smapIter struct {
	snap []*mentry
	pos  int
}

func (it *smapIter) next() tuple {
	for it.pos < len(it.snap) {
		e := it.snap[it.pos]
		it.pos++
		if !e.deleted {
			return tuple{true, e.key, e.val}
		}
	}
	return tuple{false, nil, nil}
}

// ---------------------------------------------------------------- strings

func (s symString) concrete() (string, bool) {
	b := make([]byte, len(s.b))
	for i, x := range s.b {
		c, ok := x.(uint8)
		if !ok {
			return "", false
		}
		b[i] = c
	}
	return string(b), true
}

// strBytes returns the byte values of a string value (string or symString).
func strBytes(v value) []value {
	switch v := v.(type) {
	case string:
		out := make([]value, len(v))
		for i := 0; i < len(v); i++ {
			out[i] = v[i]
		}
		return out
	case symString:
		return v.b
	}
	panic(engineBug(fmt.Sprintf("strBytes: not a string: %T", v)))
}

func isString(v value) bool {
	switch v.(type) {
	case string, symString:
		return true
	}
	return false
}

// mkString builds a string value from byte values, concrete when possible.
func mkString(b []value) value {
	s := symString{b: b}
	if c, ok := s.concrete(); ok {
		return c
	}
	cp := make([]value, len(b))
	copy(cp, b)
	return symString{b: cp}
}

func strLen(v value) int {
	switch v := v.(type) {
	case string:
		return len(v)
	case symString:
		return len(v.b)
	}
	panic(engineBug(fmt.Sprintf("strLen: not a string: %T", v)))
}

type symStringIter struct {
	i   *interpreter
	b   []value
	pos int
}

func (it *symStringIter) next() tuple {
	if it.pos >= len(it.b) {
		return tuple{false, nil, nil}
	}
	c := it.b[it.pos]
	// ASCII only for symbolic bytes
	if s, ok := c.(sym); ok {
		tb := it.i.tb
		if !it.i.decide(tb.App("bvult", s.t, tb.BVConst(0x80, 8))) {
			panic(unsupported("range over string with symbolic non-ASCII byte"))
		}
		r := it.i.mkSym(tb.ZeroExt(24, s.t), types.Int32)
		p := it.pos
		it.pos++
		return tuple{true, p, r}
	}
	cb := c.(uint8)
	if cb < 0x80 {
		p := it.pos
		it.pos++
		return tuple{true, p, rune(cb)}
	}
	// multi-byte: needs following bytes concrete
	var buf []byte
	for j := it.pos; j < len(it.b) && j < it.pos+4; j++ {
		x, ok := it.b[j].(uint8)
		if !ok {
			break
		}
		buf = append(buf, x)
	}
	r, n := decodeRune(buf)
	p := it.pos
	it.pos += n
	return tuple{true, p, r}
}

func decodeRune(b []byte) (rune, int) {
	for i, r := range string(b) {
		_ = i
		n := len(string(r))
		if r == 0xFFFD {
			n = 1
		}
		return r, n
	}
	return 0xFFFD, 1
}

// ---------------------------------------------------------------- load/store

// load returns the value of type T in *addr.
func load(T types.Type, addr *value) value {
	switch T := T.Underlying().(type) {
	case *types.Struct:
		v := (*addr).(structure)
		a := make(structure, len(v))
		for i := range a {
			a[i] = load(T.Field(i).Type(), &v[i])
		}
		return a
	case *types.Array:
		v := (*addr).(array)
		a := make(array, len(v))
		for i := range a {
			a[i] = load(T.Elem(), &v[i])
		}
		return a
	default:
		return *addr
	}
}

// store stores value v of type T into *addr.
func store(T types.Type, addr *value, v value) {
	switch T := T.Underlying().(type) {
	case *types.Struct:
		lhs := (*addr).(structure)
		rhs := v.(structure)
		for i := range lhs {
			store(T.Field(i).Type(), &lhs[i], rhs[i])
		}
	case *types.Array:
		lhs := (*addr).(array)
		rhs := v.(array)
		for i := range lhs {
			store(T.Elem(), &lhs[i], rhs[i])
		}
	default:
		*addr = v
	}
}

// copyVal makes an unaliased copy of a value of static type T.
func copyVal(v value) value {
	switch v := v.(type) {
	case structure:
		a := make(structure, len(v))
		for i := range v {
			a[i] = copyVal(v[i])
		}
		return a
	case array:
		a := make(array, len(v))
		for i := range v {
			a[i] = copyVal(v[i])
		}
		return a
	}
	return v
}

// Prints in the style of built-in println.
func writeValue(buf *bytes.Buffer, v value) {
	switch v := v.(type) {
	case nil, bool, int, int8, int16, int32, int64, uint, uint8, uint16, uint32, uint64, uintptr, float32, float64, complex64, complex128, string:
		fmt.Fprintf(buf, "%v", v)
	case sym:
		fmt.Fprintf(buf, "<sym %s>", smt.Ref(v.t))
	case symString:
		buf.WriteString("<symstr ")
		for _, b := range v.b {
			if c, ok := b.(uint8); ok {
				buf.WriteByte(c)
			} else {
				buf.WriteByte('?')
			}
		}
		buf.WriteString(">")
	case *smap:
		buf.WriteString("map[")
		if v != nil {
			for i, e := range v.entries {
				if i > 0 {
					buf.WriteString(" ")
				}
				writeValue(buf, e.key)
				buf.WriteString(":")
				writeValue(buf, e.val)
			}
		}
		buf.WriteString("]")
	case chan value:
		fmt.Fprintf(buf, "%v", v) // (an address)
	case *value:
		if v == nil {
			buf.WriteString("<nil>")
		} else {
			fmt.Fprintf(buf, "%p", v)
		}
	case iface:
		fmt.Fprintf(buf, "(%s, ", v.t)
		writeValue(buf, v.v)
		buf.WriteString(")")
	case structure:
		buf.WriteString("{")
		for i, e := range v {
			if i > 0 {
				buf.WriteString(" ")
			}
			writeValue(buf, e)
		}
		buf.WriteString("}")
	case array:
		buf.WriteString("[")
		for i, e := range v {
			if i > 0 {
				buf.WriteString(" ")
			}
			writeValue(buf, e)
		}
		buf.WriteString("]")
	case []value:
		buf.WriteString("[")
		for i, e := range v {
			if i > 0 {
				buf.WriteString(" ")
			}
			writeValue(buf, e)
		}
		buf.WriteString("]")
	case *ssa.Function, *ssa.Builtin, *closure:
		fmt.Fprintf(buf, "%p", v) // (an address)
	case tuple:
		buf.WriteString("(")
		for i, e := range v {
			if i > 0 {
				buf.WriteString(", ")
			}
			writeValue(buf, e)
		}
		buf.WriteString(")")
	default:
		fmt.Fprintf(buf, "<%T>", v)
	}
}

func toString(v value) string {
	var b bytes.Buffer
	writeValue(&b, v)
	return b.String()
}

// ------------------------------------------------------------------------
// Iterators over concrete strings

type stringIter struct {
	*strings.Reader
	i int
}

func (it *stringIter) next() tuple {
	okv := make(tuple, 3)
	ch, n, err := it.ReadRune()
	ok := err == nil
	okv[0] = ok
	if ok {
		okv[1] = it.i
		okv[2] = ch
	}
	it.i += n
	return okv
}

// nil-tolerant variant of types.Identical.
func sameType(x, y types.Type) bool {
	if x == nil {
		return y == nil
	}
	return y != nil && types.Identical(x, y)
}
