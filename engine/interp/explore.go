package interp

// DART-style exploration by re-execution: every path is an ordinary
// interpretation of the harness entry that follows a prefix of recorded
// decisions and then asks the solver which sides of each new symbolic branch
// are feasible.

import (
	"fmt"
	"go/token"
	"go/types"
	"os"
	"runtime"
	"sort"
	"strings"
	"sync"
	"time"

	"gosym/smt"

	"golang.org/x/tools/go/ssa"
)

type Config struct {
	MaxDepth     int   // symbolic decisions per path (unwinding bound)
	MaxSteps     int64 // SSA instructions per path
	MaxCallDepth int
	MaxPaths     int
	Workers      int
	Tier         int // 0 quick, 1 thorough
	Seed         int64
	Debug        bool
	Trace        bool
	Diff         bool // cross-check definite answers with a second solver
	ReverseMaps  bool
	NoMerge      bool
	NoSummConc   bool
	GoDeferred   bool // goroutines run at the next WaitGroup.Wait instead of at the spawn point
	PoolReuse    bool // sync.Pool.Get hands back the most recently Put object
	SMTLogDir    string
	Timeouts     [4]int
}

func DefaultConfig() *Config {
	return &Config{MaxDepth: 400, MaxSteps: 20_000_000, MaxCallDepth: 400, MaxPaths: 2_000_000, Workers: 8,
		Timeouts: [4]int{5000, 30000, 30000, 30000}}
}

// Shared is the immutable (after load) program state shared by workers.
type Shared struct {
	Prog          *ssa.Program
	ModulePath    string
	Stubs         map[string]*ssa.Function
	Summarize     map[string]bool
	StubAlways    map[string]bool
	SummarizeConc map[string]bool
	Sizes         types.Sizes
	buildMu       sync.Mutex
	built         map[*ssa.Package]bool
	armMu         sync.Mutex
	armCache      map[*ssa.BasicBlock]bool
	DecSites      map[string]int
}

func NewShared(prog *ssa.Program, modulePath string) *Shared {
	return &Shared{Prog: prog, ModulePath: modulePath, Stubs: map[string]*ssa.Function{}, Summarize: map[string]bool{}, StubAlways: map[string]bool{}, SummarizeConc: map[string]bool{}, armCache: map[*ssa.BasicBlock]bool{}, built: map[*ssa.Package]bool{},
		Sizes: types.SizesFor("gc", "amd64")}
}

func (sh *Shared) noteDecision(site string) {
	sh.armMu.Lock()
	if sh.DecSites == nil {
		sh.DecSites = map[string]int{}
	}
	sh.DecSites[site]++
	sh.armMu.Unlock()
}

// DumpDecisions prints the most frequent fork sites (debugging aid).
func (sh *Shared) DumpDecisions(n int) {
	sh.armMu.Lock()
	defer sh.armMu.Unlock()
	type kv struct {
		k string
		v int
	}
	var l []kv
	for k, v := range sh.DecSites {
		l = append(l, kv{k, v})
	}
	sort.Slice(l, func(a, b int) bool { return l[a].v > l[b].v })
	for k := 0; k < n && k < len(l); k++ {
		fmt.Fprintf(os.Stderr, "  fork site %6d  %s\n", l[k].v, l[k].k)
	}
}

func (sh *Shared) build(p *ssa.Package) {
	sh.buildMu.Lock()
	defer sh.buildMu.Unlock()
	if !sh.built[p] {
		p.Build()
		sh.built[p] = true
	}
}

type decision struct {
	choice int
	aux    uint64
}

type pathAbort struct{ why string }
type budgetExceeded struct{ what string }

type pathState struct {
	prefix []decision
	pos    int
	trace  []decision
	pc     []*smt.Term
	inputs []inputRec // symbolic inputs in creation order
}

type inputRec struct {
	name string
	t    *smt.Term
	k    types.BasicKind
}

// Mode of input generation.
type InputMode int

const (
	Symbolic InputMode = iota
	Concrete           // inputs from a fixed map / pseudo-random function
)

// Violation is a failed assertion or an escaping panic with its model.
type Violation struct {
	Harness string            `json:"harness"`
	Kind    string            `json:"kind"` // "assert" | "panic" | "hang"
	Label   string            `json:"label"`
	Site    string            `json:"site,omitempty"`
	Msg     string            `json:"msg,omitempty"`
	Model   map[string]uint64 `json:"model"`
	Kinds   map[string]string `json:"kinds,omitempty"`
	PCSize  int               `json:"pc_size"`
	Solver  string            `json:"solver,omitempty"`
}

type ObligationSample struct {
	Harness string  `json:"harness"`
	Label   string  `json:"label"`
	PathID  int     `json:"path_id"`
	PCSize  int     `json:"pc_terms"`
	Size    int     `json:"formula_nodes"`
	Verdict string  `json:"verdict"`
	Solver  string  `json:"solver"`
	Ms      float64 `json:"ms"`
}

// pathResult accumulates what one path did.
type pathResult struct {
	violations  []Violation
	obligations int
	discharged  int
	trivial     int
	nontrivial  bool
	reached     map[string]bool
	unknown     []string
	unsupported string
	unwind      string
	funcs       map[*ssa.Function]bool
	stubs       map[string]bool
	notes       map[string]bool
	samples     []ObligationSample
	observes    []string
	assumeFail  bool
	skipped     int
	expectPanic bool
}

func newPathResult() *pathResult {
	return &pathResult{reached: map[string]bool{}, funcs: map[*ssa.Function]bool{}, stubs: map[string]bool{}, notes: map[string]bool{}}
}

func (r *pathResult) noteFunc(fn *ssa.Function) {
	if r != nil {
		r.funcs[fn] = true
	}
}
func (r *pathResult) noteStub(s string) {
	if r != nil {
		r.stubs[s] = true
	}
}
func (r *pathResult) note(s string) {
	if r != nil {
		r.notes[s] = true
	}
}

// HarnessResult is the aggregate over all paths of one harness entry.
type HarnessResult struct {
	Name        string
	Paths       int
	Infeasible  int
	Instrs      int64
	Obligations int
	Discharged  int
	Trivial     int
	Nontrivial  int
	Violations  []Violation
	Unknown     []string
	Unsupported []string
	Unwind      []string
	Reached     map[string]int
	Funcs       map[string]string
	Stubs       map[string]bool
	Notes       map[string]bool
	Samples     []ObligationSample
	Solver      smt.Stats
	Wall        time.Duration
	GoInlined   bool
	Truncated   bool
	MaxPC       int
}

// ---------------------------------------------------------------- decisions

func (i *interpreter) check(extra *smt.Term, wantModel bool, vars []*smt.Term) (smt.Result, smt.Model, string) {
	as := make([]*smt.Term, 0, len(i.path.pc)+1)
	as = append(as, i.path.pc...)
	if extra != nil {
		as = append(as, extra)
	}
	return i.solver.Check(as, vars, wantModel)
}

// decide returns the truth value chosen for symbolic condition c on this path.
func (i *interpreter) decide(c *smt.Term) bool {
	if c.IsConst() {
		return c.Val != 0
	}
	p := i.path
	if p == nil {
		panic(unsupported("symbolic decision outside a path (package initialisation)"))
	}
	tb := i.tb
	// already implied by the path condition syntactically?
	for _, q := range p.pc {
		if q == c {
			return true
		}
		if q.Op == "not" && q.Args[0] == c {
			return false
		}
	}
	if p.pos < len(p.prefix) {
		d := p.prefix[p.pos]
		p.pos++
		p.trace = append(p.trace, d)
		if d.choice == 1 {
			p.pc = append(p.pc, c)
			return true
		}
		p.pc = append(p.pc, tb.Not(c))
		return false
	}
	if len(p.trace) >= i.cfg.MaxDepth {
		panic(budgetExceeded{"decision depth"})
	}
	if i.cfg.Debug && i.curFr != nil {
		i.sh.noteDecision(i.curFr.pos())
	}
	t0dbg := time.Now()
	rT, _, eT := i.check(c, false, nil)
	if i.cfg.Debug && time.Since(t0dbg) > 2*time.Second && i.curFr != nil {
		fmt.Fprintf(os.Stderr, "slow decision at %s: cond=%s size=%d\n", i.curFr.pos(), smt.Body(c), c.Size())
	}
	var rF smt.Result
	var eF string
	if rT == smt.Unsat {
		rF = smt.Sat // pc is satisfiable by invariant
	} else {
		rF, _, eF = i.check(tb.Not(c), false, nil)
	}
	if rT == smt.Unknown {
		i.res.unknown = append(i.res.unknown, "branch feasibility: "+eT)
	}
	if rF == smt.Unknown {
		i.res.unknown = append(i.res.unknown, "branch feasibility: "+eF)
	}
	switch {
	case rT != smt.Unsat && rF != smt.Unsat:
		// both feasible (or unknown): follow true, queue false
		alt := make([]decision, len(p.trace)+1)
		copy(alt, p.trace)
		alt[len(p.trace)] = decision{choice: 0}
		i.sh2.push(alt)
		p.trace = append(p.trace, decision{choice: 1})
		p.pc = append(p.pc, c)
		return true
	case rT != smt.Unsat:
		p.trace = append(p.trace, decision{choice: 1})
		p.pc = append(p.pc, c)
		return true
	case rF != smt.Unsat:
		p.trace = append(p.trace, decision{choice: 0})
		p.pc = append(p.pc, tb.Not(c))
		return false
	}
	panic(pathAbort{"infeasible path condition"})
}

// decideN picks one of several mutually exclusive, jointly exhaustive conditions.
func (i *interpreter) decideN(conds []*smt.Term) int {
	p := i.path
	if p == nil {
		panic(unsupported("symbolic decision outside a path"))
	}
	if p.pos < len(p.prefix) {
		d := p.prefix[p.pos]
		p.pos++
		p.trace = append(p.trace, d)
		p.pc = append(p.pc, conds[d.choice])
		return d.choice
	}
	if len(p.trace) >= i.cfg.MaxDepth {
		panic(budgetExceeded{"decision depth"})
	}
	first := -1
	for k, c := range conds {
		if c.IsConst() && c.Val == 0 {
			continue
		}
		r, _, e := i.check(c, false, nil)
		if r == smt.Unsat {
			continue
		}
		if r == smt.Unknown {
			i.res.unknown = append(i.res.unknown, "branch feasibility: "+e)
		}
		if first < 0 {
			first = k
			continue
		}
		alt := make([]decision, len(p.trace)+1)
		copy(alt, p.trace)
		alt[len(p.trace)] = decision{choice: k}
		i.sh2.push(alt)
	}
	if first < 0 {
		panic(pathAbort{"no feasible alternative"})
	}
	p.trace = append(p.trace, decision{choice: first})
	p.pc = append(p.pc, conds[first])
	return first
}

// pickValue concretises term t by forking over its feasible values.
func (i *interpreter) pickValue(t *smt.Term) uint64 {
	if t.IsConst() {
		return t.Val
	}
	p := i.path
	if p == nil {
		panic(unsupported("symbolic concretisation outside a path"))
	}
	tb := i.tb
	for n := 0; ; n++ {
		if n > 4096 {
			panic(budgetExceeded{"concretisation fan-out"})
		}
		if p.pos < len(p.prefix) {
			d := p.prefix[p.pos]
			p.pos++
			p.trace = append(p.trace, d)
			eq := tb.Eq(t, tb.BVConst(d.aux, t.S.W))
			if d.choice == 1 {
				p.pc = append(p.pc, eq)
				return d.aux
			}
			p.pc = append(p.pc, tb.Not(eq))
			continue
		}
		if len(p.trace) >= i.cfg.MaxDepth {
			panic(budgetExceeded{"decision depth"})
		}
		r, m, e := i.check(nil, true, []*smt.Term{t})
		if r == smt.Unsat {
			panic(pathAbort{"no further value"})
		}
		if r == smt.Unknown {
			i.res.unknown = append(i.res.unknown, "concretisation: "+e)
			panic(pathAbort{"unknown in concretisation"})
		}
		v, ok := m[strings.Trim(smt.Ref(t), "|")]
		if !ok {
			panic(engineBug("model lacks value for " + smt.Ref(t)))
		}
		eq := tb.Eq(t, tb.BVConst(v, t.S.W))
		// queue the alternative "t != v"
		alt := make([]decision, len(p.trace)+1)
		copy(alt, p.trace)
		alt[len(p.trace)] = decision{choice: 0, aux: v}
		i.sh2.push(alt)
		p.trace = append(p.trace, decision{choice: 1, aux: v})
		p.pc = append(p.pc, eq)
		return v
	}
}

// assume adds c to the path condition, abandoning the path when infeasible.
func (i *interpreter) assume(c value) {
	switch c := c.(type) {
	case bool:
		if !c {
			i.res.assumeFail = true
			panic(pathAbort{"assume false"})
		}
	case sym:
		p := i.path
		for _, q := range p.pc {
			if q == c.t {
				return
			}
		}
		r, _, e := i.check(c.t, false, nil)
		if r == smt.Unsat {
			i.res.assumeFail = true
			panic(pathAbort{"assume infeasible"})
		}
		if r == smt.Unknown {
			i.res.unknown = append(i.res.unknown, "assume: "+e)
		}
		p.pc = append(p.pc, c.t)
	default:
		panic(engineBug(fmt.Sprintf("assume %T", c)))
	}
}

func (i *interpreter) modelVars() []*smt.Term {
	vars := make([]*smt.Term, 0, len(i.path.inputs))
	for _, in := range i.path.inputs {
		vars = append(vars, in.t)
	}
	return vars
}

func (i *interpreter) violation(kind, label, site, msg string, m smt.Model, solver string) {
	v := Violation{Harness: i.harness, Kind: kind, Label: label, Site: site, Msg: msg, Model: map[string]uint64{}, Kinds: map[string]string{}, PCSize: len(i.path.pc), Solver: solver}
	for _, in := range i.path.inputs {
		if val, ok := m[in.name]; ok {
			v.Model[in.name] = val
		} else {
			v.Model[in.name] = 0
		}
		v.Kinds[in.name] = types.Typ[in.k].Name()
	}
	i.res.violations = append(i.res.violations, v)
}

// assert discharges pc ∧ ¬c.
func (i *interpreter) assert(c value, label string) {
	i.res.reached["assert:"+label] = true
	switch c := c.(type) {
	case bool:
		i.res.obligations++
		if c {
			i.res.discharged++
			i.res.trivial++
			return
		}
		// concretely false on a feasible path: get a model of the path condition
		if i.mode == Concrete {
			i.violation("assert", label, "", "", nil, "concrete")
			return
		}
		r, m, s := i.check(nil, true, i.modelVars())
		if r == smt.Sat {
			i.violation("assert", label, "", "", m, s)
		} else if r == smt.Unknown {
			i.res.unknown = append(i.res.unknown, "assert "+label+": "+s)
		}
	case sym:
		if i.sh2.violCount(label) >= 6 {
			// this assertion already has enough counterexamples; do not pay for
			// more models, continue under the assumption that it holds
			i.res.skipped++
			r2, _, _ := i.check(c.t, false, nil)
			if r2 == smt.Unsat {
				panic(pathAbort{"assertion fails on the whole path"})
			}
			i.path.pc = append(i.path.pc, c.t)
			return
		}
		i.res.obligations++
		i.res.nontrivial = true
		t0 := time.Now()
		neg := i.tb.Not(c.t)
		r, m, s := i.check(neg, true, i.modelVars())
		ms := float64(time.Since(t0).Microseconds()) / 1000
		if len(i.res.samples) < 2 {
			i.res.samples = append(i.res.samples, ObligationSample{Harness: i.harness, Label: label, PCSize: len(i.path.pc), Size: c.t.Size(), Verdict: r.String(), Solver: s, Ms: ms})
		}
		switch r {
		case smt.Unsat:
			i.res.discharged++
		case smt.Sat:
			i.sh2.violInc(label)
			i.violation("assert", label, "", "", m, s)
			// continue under the assumption that the assertion holds, if possible
			r2, _, _ := i.check(c.t, false, nil)
			if r2 == smt.Unsat {
				panic(pathAbort{"assertion fails on the whole path"})
			}
			i.path.pc = append(i.path.pc, c.t)
		default:
			i.res.unknown = append(i.res.unknown, "assert "+label+": "+s)
		}
	default:
		panic(engineBug(fmt.Sprintf("assert on %T", c)))
	}
}

// ---------------------------------------------------------------- worklist

type worklist struct {
	mu      sync.Mutex
	cond    *sync.Cond
	items   [][]decision
	active  int
	done    bool
	pushed  int
	maxOpen int
	viol    map[string]int
}

func newWorklist() *worklist {
	w := &worklist{}
	w.cond = sync.NewCond(&w.mu)
	return w
}

func (w *worklist) push(p []decision) {
	w.mu.Lock()
	w.items = append(w.items, p)
	w.pushed++
	if len(w.items) > w.maxOpen {
		w.maxOpen = len(w.items)
	}
	w.mu.Unlock()
	w.cond.Signal()
}

// pop blocks until an item is available or all workers are idle.
func (w *worklist) pop() ([]decision, bool) {
	w.mu.Lock()
	defer w.mu.Unlock()
	for {
		if w.done {
			return nil, false
		}
		if n := len(w.items); n > 0 {
			it := w.items[n-1]
			w.items = w.items[:n-1]
			w.active++
			return it, true
		}
		if w.active == 0 {
			w.done = true
			w.cond.Broadcast()
			return nil, false
		}
		w.cond.Wait()
	}
}

func (w *worklist) violCount(label string) int {
	w.mu.Lock()
	defer w.mu.Unlock()
	return w.viol[label]
}

func (w *worklist) violInc(label string) {
	w.mu.Lock()
	if w.viol == nil {
		w.viol = map[string]int{}
	}
	w.viol[label]++
	w.mu.Unlock()
}

func (w *worklist) finish() {
	w.mu.Lock()
	w.active--
	if w.active == 0 && len(w.items) == 0 {
		w.done = true
		w.cond.Broadcast()
	}
	w.mu.Unlock()
}

func (w *worklist) stop() {
	w.mu.Lock()
	w.done = true
	w.cond.Broadcast()
	w.mu.Unlock()
}

// ---------------------------------------------------------------- driver

func newInterpreter(sh *Shared, cfg *Config) *interpreter {
	i := &interpreter{
		prog:             sh.Prog,
		sh:               sh,
		cfg:              cfg,
		sizes:            sh.Sizes,
		persistent:       map[*ssa.Global]*value{},
		persistentInited: map[*ssa.Package]bool{},
		fninfo:           map[*ssa.Function]*fnInfo{},
		tb:               smt.NewTable(),
		summaries:        map[*ssa.Function]*summary{},
		builtSeen:        map[*ssa.Package]bool{},
		solver:           smt.NewSolver(),
		reverseMaps:      cfg.ReverseMaps,
		tracing:          cfg.Trace,
	}
	i.solver.Timeout = cfg.Timeouts
	i.solver.Diff = cfg.Diff
	i.solver.Debug = cfg.Debug
	i.solver.LogDir = cfg.SMTLogDir
	if rt := sh.Prog.ImportedPackage("runtime"); rt != nil {
		i.runtimeErrorString = rt.Type("errorString").Object().Type()
	}
	return i
}

// runPath executes the entry function once along prefix.
func (i *interpreter) runPath(entry *ssa.Function, prefix []decision) (res *pathResult) {
	i.globals = map[*ssa.Global]*value{}
	i.inited = map[*ssa.Package]bool{}
	i.path = &pathState{prefix: prefix}
	i.res = newPathResult()
	res = i.res
	i.steps = 0
	i.callDepth = 0
	i.panicSiteSet = false
	i.fresh = 0
	i.nameCount = map[string]int{}
	i.fs = nil
	i.hashes = nil
	i.clock = 0
	i.pendingGo = nil
	i.pools = nil
	defer func() {
		p := recover()
		if p == nil {
			return
		}
		switch p := p.(type) {
		case pathAbort:
			// silent end of path
		case budgetExceeded:
			res.unwind = p.what
			if !res.expectPanic {
				// a hang / unbounded loop: report with a model if one exists
				if i.mode == Symbolic {
					r, m, s := i.check(nil, true, i.modelVars())
					if r == smt.Sat {
						i.violation("hang", "budget", i.panicSite, p.what, m, s)
					}
				} else {
					i.violation("hang", "budget", i.panicSite, p.what, nil, "concrete")
				}
			}
		case crashPanic:
			res.unsupported = "crash point reached outside zz.RunCrash"
		case unsupported:
			res.unsupported = string(p)
		case engineBug:
			res.unsupported = "ENGINE-BUG " + string(p)
		case *runtime.TypeAssertionError:
			buf := make([]byte, 2048)
			buf = buf[:runtime.Stack(buf, false)]
			res.unsupported = "ENGINE-BUG type assertion: " + p.Error()
		default:
			// target panic escaping the harness entry
			msg := panicString(p)
			if _, isRt := p.(runtime.Error); isRt {
				if _, mine := p.(rtError); !mine {
					// native runtime error inside the engine: treat as target panic only
					// if it is an index/slice/nil/divide error
					msg = "runtime: " + msg
				}
			}
			site := i.panicSite
			if i.mode == Symbolic {
				r, m, s := i.check(nil, true, i.modelVars())
				if r == smt.Sat {
					i.violation("panic", "panic", site, msg, m, s)
				} else if r == smt.Unknown {
					res.unknown = append(res.unknown, "panic model: "+s)
				}
			} else {
				i.violation("panic", "panic", site, msg, nil, "concrete")
			}
		}
	}()
	callSSA(i, nil, token.NoPos, entry, nil, nil)
	i.runPendingGo()
	return res
}

// Explore runs all paths of entry.
func Explore(sh *Shared, cfg *Config, entry *ssa.Function) *HarnessResult {
	t0 := time.Now()
	hr := &HarnessResult{Name: entry.Name(), Reached: map[string]int{}, Funcs: map[string]string{}, Stubs: map[string]bool{}, Notes: map[string]bool{}}
	wl := newWorklist()
	wl.push(nil)
	var mu sync.Mutex
	var wg sync.WaitGroup
	nw := cfg.Workers
	if nw < 1 {
		nw = 1
	}
	pathID := 0
	for w := 0; w < nw; w++ {
		wg.Add(1)
		go func() {
			defer wg.Done()
			i := newInterpreter(sh, cfg)
			i.sh2 = wl
			i.harness = entry.Name()
			defer func() {
				mu.Lock()
				st := i.solver.St
				hr.Solver.Queries += st.Queries
				hr.Solver.Time += st.Time
				hr.Solver.Unknowns += st.Unknowns
				hr.Solver.Errors += st.Errors
				if st.MaxQueryS > hr.Solver.MaxQueryS {
					hr.Solver.MaxQueryS = st.MaxQueryS
				}
				if hr.Solver.BySolver == nil {
					hr.Solver.BySolver = map[string]int{}
				}
				for k, v := range st.BySolver {
					hr.Solver.BySolver[k] += v
				}
				mu.Unlock()
				i.solver.Close()
			}()
			for {
				prefix, ok := wl.pop()
				if !ok {
					return
				}
				res := i.runPath(entry, prefix)
				mu.Lock()
				pathID++
				hr.Paths++
				if res.assumeFail {
					hr.Infeasible++
				}
				hr.Instrs += i.steps
				hr.Obligations += res.obligations
				hr.Discharged += res.discharged
				hr.Trivial += res.trivial
				if res.nontrivial {
					hr.Nontrivial++
				}
				if n := len(i.path.pc); n > hr.MaxPC {
					hr.MaxPC = n
				}
				if len(hr.Violations) < 200 {
					hr.Violations = append(hr.Violations, res.violations...)
				}
				if len(hr.Unknown) < 50 {
					hr.Unknown = append(hr.Unknown, res.unknown...)
				}
				if res.unsupported != "" && len(hr.Unsupported) < 50 {
					hr.Unsupported = append(hr.Unsupported, res.unsupported)
				}
				if res.unwind != "" && len(hr.Unwind) < 50 {
					hr.Unwind = append(hr.Unwind, res.unwind)
				}
				for k := range res.reached {
					hr.Reached[k]++
				}
				for f := range res.funcs {
					name := f.String()
					if _, ok := hr.Funcs[name]; !ok {
						pos := sh.Prog.Fset.Position(f.Pos())
						hr.Funcs[name] = fmt.Sprintf("%s:%d", shortFile(pos.Filename), pos.Line)
					}
				}
				for s := range res.stubs {
					hr.Stubs[s] = true
				}
				for s := range res.notes {
					hr.Notes[s] = true
				}
				if i.goInlined {
					hr.GoInlined = true
				}
				for _, s := range res.samples {
					if len(hr.Samples) < 6 {
						s.PathID = pathID
						hr.Samples = append(hr.Samples, s)
					}
				}
				stop := hr.Paths >= cfg.MaxPaths
				if stop {
					hr.Truncated = true
				}
				if cfg.Debug && hr.Paths%200 == 0 {
					fmt.Fprintf(os.Stderr, "[%s] paths=%d open=%d viol=%d\n", entry.Name(), hr.Paths, len(wl.items), len(hr.Violations))
					if hr.Paths%2000 == 0 {
						go sh.DumpDecisions(12)
					}
				}
				mu.Unlock()
				wl.finish()
				if stop {
					wl.stop()
					return
				}
			}
		}()
	}
	wg.Wait()
	hr.Wall = time.Since(t0)
	sort.Slice(hr.Violations, func(a, b int) bool { return hr.Violations[a].Label < hr.Violations[b].Label })
	return hr
}

// RunConcrete executes the entry once with inputs from the given function and
// returns the observation log (for translator validation) and violations.
func RunConcrete(sh *Shared, cfg *Config, entry *ssa.Function, inputs func(name string, k string, ranged bool, lo, hi uint64) uint64, useStubs bool) (obs []string, viol []Violation, note string) {
	i := newInterpreter(sh, cfg)
	defer i.solver.Close()
	i.mode = Concrete
	i.inputFn = inputs
	i.harness = entry.Name()
	i.sh2 = newWorklist()
	res := i.runPath(entry, nil)
	note = res.unsupported
	if res.unwind != "" {
		note += " UNWIND " + res.unwind
	}
	if res.assumeFail {
		note = "ASSUME-FAIL"
	}
	return res.observes, res.violations, note
}

func splitmix(x uint64) uint64 {
	x += 0x9E3779B97F4A7C15
	x = (x ^ (x >> 30)) * 0xBF58476D1CE4E5B9
	x = (x ^ (x >> 27)) * 0x94D049BB133111EB
	return x ^ (x >> 31)
}

func fnv(s string) uint64 {
	h := uint64(14695981039346656037)
	for i := 0; i < len(s); i++ {
		h ^= uint64(s[i])
		h *= 1099511628211
	}
	return h
}

// RandomInputs mirrors zzverif.raw in "random" mode (translator validation).
func RandomInputs(seed uint64) func(name, kind string, ranged bool, lo, hi uint64) uint64 {
	return func(name, kind string, ranged bool, lo, hi uint64) uint64 {
		h := splitmix(splitmix(seed) ^ fnv(name))
		if ranged {
			span := hi - lo + 1
			if span == 0 {
				return h
			}
			return lo + h%span
		}
		if h>>62 == 0 {
			h = (h >> 8) & 15
		}
		switch kind {
		case "bool":
			h &= 1
		case "uint8", "int8":
			h &= 0xff
		case "uint16", "int16":
			h &= 0xffff
		case "uint32", "int32":
			h &= 0xffffffff
		}
		return h
	}
}

// MapInputs replays a model.
func MapInputs(m map[string]uint64) func(name, kind string, ranged bool, lo, hi uint64) uint64 {
	return func(name, kind string, ranged bool, lo, hi uint64) uint64 { return m[name] }
}
