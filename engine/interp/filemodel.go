package interp

// In-memory file-system model for the os package (engine intrinsics).  Files
// are byte vectors whose contents may be symbolic; sizes and offsets are
// concrete per path.  Every path handed to the model is recorded.  A crash can
// be armed to stop the world before the k-th mutating operation.

import (
	"fmt"
	"go/types"
	"os"
	"path/filepath"
	"sort"
	"strings"

	"golang.org/x/tools/go/ssa"
)

type memFile struct {
	data  []value
	isDir bool
}

type fileHandle struct {
	name   string
	f      *memFile
	pos    int64
	app    bool
	rd, wr bool
	closed bool
}

type fsModel struct {
	files    map[string]*memFile
	handles  map[*value]*fileHandle
	paths    []string // every path given to the model, in order
	ops      int      // mutating operations performed
	crashAt  int      // crash before mutating op number crashAt (1-based); 0 = disarmed
	torn     bool
	crashed  bool
	tmpCount int
}

type crashPanic struct{}

func (i *interpreter) fsm() *fsModel {
	if i.fs == nil {
		i.fs = &fsModel{files: map[string]*memFile{}, handles: map[*value]*fileHandle{}}
		i.fs.files["/"] = &memFile{isDir: true}
		i.fs.files["/tmp"] = &memFile{isDir: true}
	}
	return i.fs
}

func (m *fsModel) note(p string) string {
	p = filepath.Clean(p)
	m.paths = append(m.paths, p)
	return p
}

// mutate is called before every mutating operation.
func (m *fsModel) mutate() {
	m.ops++
	if m.crashAt > 0 && m.ops >= m.crashAt {
		m.crashed = true
		panic(crashPanic{})
	}
}

func (i *interpreter) pathArg(v value) string {
	switch s := v.(type) {
	case string:
		return s
	case symString:
		if c, ok := s.concrete(); ok {
			return c
		}
		panic(unsupported("file model: symbolic path (use the path monitor harness primitives)"))
	}
	panic(engineBug("pathArg"))
}

func (i *interpreter) globalVal(pkg, name string) value {
	p := i.prog.ImportedPackage(pkg)
	if p == nil {
		panic(unsupported("package not loaded: " + pkg))
	}
	g := p.Var(name)
	if g == nil {
		panic(unsupported("no global " + pkg + "." + name))
	}
	return *i.globalAddr(g)
}

func (i *interpreter) errNotExist(op, path string) value {
	return i.pathError(op, path, i.globalVal("io/fs", "ErrNotExist"))
}

func (i *interpreter) pathError(op, path string, inner value) value {
	p := i.prog.ImportedPackage("io/fs")
	t := p.Type("PathError").Object().Type()
	var cell value = structure{op, path, inner}
	return iface{t: types.NewPointer(t), v: &cell}
}

func (i *interpreter) newOSFile() *value {
	t := i.prog.ImportedPackage("os").Type("File").Object().Type()
	var cell value = zero(t)
	return &cell
}

func (i *interpreter) handleOf(v value) *fileHandle {
	p, _ := v.(*value)
	if p == nil {
		panic(rtError("invalid memory address or nil pointer dereference (nil *os.File)"))
	}
	h := i.fsm().handles[p]
	if h == nil {
		panic(unsupported("file model: unknown *os.File (os.Stdout/Stderr?)"))
	}
	return h
}

func (i *interpreter) errClosed() value { return i.globalVal("io/fs", "ErrClosed") }

func (i *interpreter) openFile(name string, flag int) value {
	m := i.fsm()
	name = m.note(name)
	f := m.files[name]
	if f == nil {
		if flag&os.O_CREATE == 0 {
			return tuple{(*value)(nil), i.errNotExist("open", name)}
		}
		if d := m.files[filepath.Dir(name)]; d == nil || !d.isDir {
			return tuple{(*value)(nil), i.errNotExist("open", name)}
		}
		m.mutate()
		f = &memFile{}
		m.files[name] = f
	} else if flag&os.O_EXCL != 0 && flag&os.O_CREATE != 0 {
		return tuple{(*value)(nil), i.pathError("open", name, i.globalVal("io/fs", "ErrExist"))}
	} else if flag&os.O_TRUNC != 0 && !f.isDir {
		m.mutate()
		f.data = nil
	}
	p := i.newOSFile()
	acc := flag & (os.O_RDONLY | os.O_WRONLY | os.O_RDWR)
	h := &fileHandle{name: name, f: f, app: flag&os.O_APPEND != 0, rd: acc != os.O_WRONLY, wr: acc != os.O_RDONLY}
	m.handles[p] = h
	return tuple{p, iface{}}
}

func (i *interpreter) fileInfo(name string, f *memFile) value {
	osp := i.prog.ImportedPackage("os")
	t := osp.Type("fileStat").Object().Type()
	st := zero(t).(structure)
	st[0] = filepath.Base(name)
	st[1] = int64(len(f.data))
	if f.isDir {
		st[2] = uint32(os.ModeDir | 0o755)
	} else {
		st[2] = uint32(0o644)
	}
	var cell value = st
	return iface{t: types.NewPointer(t), v: &cell}
}

func (h *fileHandle) writeAt(data []value, off int64) {
	for int64(len(h.f.data)) < off+int64(len(data)) {
		h.f.data = append(h.f.data, uint8(0))
	}
	copy(h.f.data[off:], data)
}

func init() {
	for k, v := range map[string]externalFn{
		"os.OpenFile": func(fr *frame, a []value) value {
			return fr.i.openFile(fr.i.pathArg(a[0]), int(fr.i.concInt(a[1])))
		},
		"os.Open": func(fr *frame, a []value) value { return fr.i.openFile(fr.i.pathArg(a[0]), os.O_RDONLY) },
		"os.Create": func(fr *frame, a []value) value {
			return fr.i.openFile(fr.i.pathArg(a[0]), os.O_RDWR|os.O_CREATE|os.O_TRUNC)
		},
		"os.ReadFile": func(fr *frame, a []value) value {
			m := fr.i.fsm()
			name := m.note(fr.i.pathArg(a[0]))
			f := m.files[name]
			if f == nil || f.isDir {
				return tuple{[]value(nil), fr.i.errNotExist("open", name)}
			}
			out := make([]value, len(f.data))
			copy(out, f.data)
			return tuple{out, iface{}}
		},
		"os.WriteFile": func(fr *frame, a []value) value {
			m := fr.i.fsm()
			name := m.note(fr.i.pathArg(a[0]))
			if d := m.files[filepath.Dir(name)]; d == nil || !d.isDir {
				return fr.i.errNotExist("open", name)
			}
			m.mutate() // create/truncate
			f := m.files[name]
			if f == nil {
				f = &memFile{}
				m.files[name] = f
			}
			f.data = nil
			m.mutate() // write
			data := seqBytes(a[1])
			f.data = append([]value(nil), data...)
			return iface{}
		},
		"os.Stat":  osStat,
		"os.Lstat": osStat,
		"os.Remove": func(fr *frame, a []value) value {
			m := fr.i.fsm()
			name := m.note(fr.i.pathArg(a[0]))
			if m.files[name] == nil {
				return fr.i.errNotExist("remove", name)
			}
			m.mutate()
			delete(m.files, name)
			return iface{}
		},
		"os.RemoveAll": func(fr *frame, a []value) value {
			m := fr.i.fsm()
			name := m.note(fr.i.pathArg(a[0]))
			m.mutate()
			for k := range m.files {
				if k == name || strings.HasPrefix(k, name+"/") {
					delete(m.files, k)
				}
			}
			return iface{}
		},
		"os.MkdirAll": func(fr *frame, a []value) value {
			m := fr.i.fsm()
			name := m.note(fr.i.pathArg(a[0]))
			for p := name; p != "/" && p != "."; p = filepath.Dir(p) {
				if f := m.files[p]; f != nil {
					if !f.isDir {
						return fr.i.pathError("mkdir", p, fr.i.globalVal("io/fs", "ErrExist"))
					}
					break
				}
				m.files[p] = &memFile{isDir: true}
			}
			return iface{}
		},
		"os.Mkdir": func(fr *frame, a []value) value {
			m := fr.i.fsm()
			name := m.note(fr.i.pathArg(a[0]))
			if m.files[name] != nil {
				return fr.i.pathError("mkdir", name, fr.i.globalVal("io/fs", "ErrExist"))
			}
			m.files[name] = &memFile{isDir: true}
			return iface{}
		},
		"os.MkdirTemp": func(fr *frame, a []value) value {
			m := fr.i.fsm()
			m.tmpCount++
			name := fmt.Sprintf("/tmp/verif-%d", m.tmpCount)
			m.files[name] = &memFile{isDir: true}
			return tuple{name, iface{}}
		},
		"os.TempDir": func(fr *frame, a []value) value { return "/tmp" },
		"os.Rename": func(fr *frame, a []value) value {
			m := fr.i.fsm()
			from, to := m.note(fr.i.pathArg(a[0])), m.note(fr.i.pathArg(a[1]))
			f := m.files[from]
			if f == nil {
				return fr.i.errNotExist("rename", from)
			}
			m.mutate()
			// rename is atomic: the destination is replaced in one step
			m.files[to] = f
			delete(m.files, from)
			for p, h := range m.handles {
				_ = p
				if h.name == from {
					h.name = to
				}
			}
			return iface{}
		},
		"os.Truncate": func(fr *frame, a []value) value {
			m := fr.i.fsm()
			name := m.note(fr.i.pathArg(a[0]))
			f := m.files[name]
			if f == nil {
				return fr.i.errNotExist("truncate", name)
			}
			m.mutate()
			n := fr.i.concInt(a[1])
			for int64(len(f.data)) < n {
				f.data = append(f.data, uint8(0))
			}
			f.data = f.data[:n]
			return iface{}
		},
		"os.ReadDir": func(fr *frame, a []value) value {
			m := fr.i.fsm()
			name := m.note(fr.i.pathArg(a[0]))
			d := m.files[name]
			if d == nil {
				return tuple{[]value(nil), fr.i.errNotExist("open", name)}
			}
			if !d.isDir {
				return tuple{[]value(nil), fr.i.pathError("readdirent", name, fr.i.globalVal("io/fs", "ErrInvalid"))}
			}
			var kids []string
			for k := range m.files {
				if k != name && filepath.Dir(k) == name {
					kids = append(kids, k)
				}
			}
			sort.Strings(kids)
			// io/fs.dirInfo{fileInfo} is the DirEntry the standard library itself builds from a FileInfo
			fsp := fr.i.prog.ImportedPackage("io/fs")
			t := fsp.Type("dirInfo").Object().Type()
			entries := make([]value, 0, len(kids))
			for _, k := range kids {
				st := zero(t).(structure)
				st[0] = fr.i.fileInfo(k, m.files[k])
				entries = append(entries, iface{t: t, v: st})
			}
			return tuple{entries, iface{}}
		},
		"(*os.File).Name": func(fr *frame, a []value) value { return fr.i.handleOf(a[0]).name },
		"(*os.File).Close": func(fr *frame, a []value) value {
			p, _ := a[0].(*value)
			if p == nil {
				return fr.i.globalVal("os", "ErrInvalid")
			}
			h := fr.i.handleOf(a[0])
			if h.closed {
				return fr.i.pathError("close", h.name, fr.i.errClosed())
			}
			h.closed = true
			return iface{}
		},
		"(*os.File).Sync": func(fr *frame, a []value) value {
			h := fr.i.handleOf(a[0])
			if h.closed {
				return fr.i.pathError("sync", h.name, fr.i.errClosed())
			}
			fr.i.fsm().mutate()
			return iface{}
		},
		"(*os.File).Stat": func(fr *frame, a []value) value {
			h := fr.i.handleOf(a[0])
			if h.closed {
				return tuple{iface{}, fr.i.pathError("stat", h.name, fr.i.errClosed())}
			}
			return tuple{fr.i.fileInfo(h.name, h.f), iface{}}
		},
		"(*os.File).Read": func(fr *frame, a []value) value {
			h := fr.i.handleOf(a[0])
			if h.closed {
				return tuple{0, fr.i.pathError("read", h.name, fr.i.errClosed())}
			}
			buf := a[1].([]value)
			if len(buf) == 0 {
				return tuple{0, iface{}}
			}
			if h.pos >= int64(len(h.f.data)) {
				return tuple{0, fr.i.globalVal("io", "EOF")}
			}
			n := copy(buf, h.f.data[h.pos:])
			h.pos += int64(n)
			return tuple{n, iface{}}
		},
		"(*os.File).ReadAt": func(fr *frame, a []value) value {
			h := fr.i.handleOf(a[0])
			if h.closed {
				return tuple{0, fr.i.pathError("read", h.name, fr.i.errClosed())}
			}
			buf := a[1].([]value)
			off := fr.i.concInt(a[2])
			if off < 0 {
				return tuple{0, fr.i.pathError("readat", h.name, fr.i.newError("negative offset"))}
			}
			if off >= int64(len(h.f.data)) {
				if len(buf) == 0 {
					return tuple{0, iface{}}
				}
				return tuple{0, fr.i.globalVal("io", "EOF")}
			}
			n := copy(buf, h.f.data[off:])
			if n < len(buf) {
				return tuple{n, fr.i.globalVal("io", "EOF")}
			}
			return tuple{n, iface{}}
		},
		"(*os.File).Write":       fileWrite,
		"(*os.File).WriteString": fileWrite,
		"(*os.File).WriteAt": func(fr *frame, a []value) value {
			h := fr.i.handleOf(a[0])
			if h.closed || !h.wr {
				return tuple{0, fr.i.pathError("write", h.name, fr.i.errClosed())}
			}
			data := seqBytes(a[1])
			off := fr.i.concInt(a[2])
			fr.i.tornOrCrash(h, data, off)
			h.writeAt(data, off)
			return tuple{len(data), iface{}}
		},
		"(*os.File).Seek": func(fr *frame, a []value) value {
			h := fr.i.handleOf(a[0])
			off := fr.i.concInt(a[1])
			switch fr.i.concInt(a[2]) {
			case 0:
				h.pos = off
			case 1:
				h.pos += off
			case 2:
				h.pos = int64(len(h.f.data)) + off
			}
			if h.pos < 0 {
				h.pos = 0
				return tuple{int64(0), fr.i.pathError("seek", h.name, fr.i.newError("invalid argument"))}
			}
			return tuple{h.pos, iface{}}
		},
		"(*os.File).Truncate": func(fr *frame, a []value) value {
			h := fr.i.handleOf(a[0])
			n := fr.i.concInt(a[1])
			fr.i.fsm().mutate()
			for int64(len(h.f.data)) < n {
				h.f.data = append(h.f.data, uint8(0))
			}
			h.f.data = h.f.data[:n]
			return iface{}
		},
		"(*os.File).Fd": func(fr *frame, a []value) value { return uintptr(3) },

		// ---- harness control of the model
		ZZ + ".CrashBefore": func(fr *frame, a []value) value {
			m := fr.i.fsm()
			k := int(fr.i.concInt(a[0]))
			if k <= 0 {
				m.crashAt = 0
			} else {
				m.crashAt = m.ops + k
			}
			m.crashed = false
			return nil
		},
		ZZ + ".TornWrites": func(fr *frame, a []value) value { fr.i.fsm().torn = a[0].(bool); return nil },
		ZZ + ".FsOps":      func(fr *frame, a []value) value { return fr.i.fsm().ops },
		ZZ + ".RunCrash": func(fr *frame, a []value) value {
			crashed := false
			func() {
				defer func() {
					if p := recover(); p != nil {
						if _, ok := p.(crashPanic); ok {
							crashed = true
							fr.i.panicSiteSet = false
							return
						}
						panic(p)
					}
				}()
				call(fr.i, fr, 0, a[0], nil)
			}()
			fr.i.fsm().crashAt = 0
			// a crash loses open handles, not file contents
			if crashed {
				fr.i.fsm().handles = map[*value]*fileHandle{}
			}
			return crashed
		},
		ZZ + ".FsPaths": func(fr *frame, a []value) value {
			m := fr.i.fsm()
			out := make([]value, len(m.paths))
			for k, p := range m.paths {
				out[k] = p
			}
			return out
		},
		ZZ + ".FsFileNames": func(fr *frame, a []value) value {
			m := fr.i.fsm()
			var names []string
			for k, f := range m.files {
				if !f.isDir {
					names = append(names, k)
				}
			}
			sort.Strings(names)
			out := make([]value, len(names))
			for k, p := range names {
				out[k] = p
			}
			return out
		},
	} {
		externals[k] = v
	}
}

func osStat(fr *frame, a []value) value {
	m := fr.i.fsm()
	name := m.note(fr.i.pathArg(a[0]))
	f := m.files[name]
	if f == nil {
		return tuple{iface{}, fr.i.errNotExist("stat", name)}
	}
	return tuple{fr.i.fileInfo(name, f), iface{}}
}

// tornOrCrash handles a crash that hits a write: with torn writes enabled an
// arbitrary prefix of the data reaches the file.
func (i *interpreter) tornOrCrash(h *fileHandle, data []value, off int64) {
	m := i.fsm()
	m.ops++
	if m.crashAt > 0 && m.ops >= m.crashAt {
		if m.torn && len(data) > 0 {
			i.fresh++
			n := int(i.concInt(i.input(fmt.Sprintf("$torn%d", i.fresh), types.Int, 0, int64(len(data)), true)))
			h.writeAt(data[:n], off)
		}
		m.crashed = true
		panic(crashPanic{})
	}
}

func fileWrite(fr *frame, a []value) value {
	h := fr.i.handleOf(a[0])
	if h.closed || !h.wr {
		return tuple{0, fr.i.pathError("write", h.name, fr.i.errClosed())}
	}
	data := seqBytes(a[1])
	off := h.pos
	if h.app {
		off = int64(len(h.f.data))
	}
	fr.i.tornOrCrash(h, data, off)
	h.writeAt(data, off)
	h.pos = off + int64(len(data))
	return tuple{len(data), iface{}}
}

var _ = ssa.NaiveForm
