// Copyright 2013 The Go Authors. All rights reserved.
// Use of this source code is governed by a BSD-style
// license that can be found in the LICENSE file.
//
// Derived from golang.org/x/tools/go/ssa/interp (v0.29.0).  This version is a
// *symbolic* interpreter: scalar leaves may be SMT terms, branches on symbolic
// conditions are decision points explored by re-execution (see explore.go).

package interp

import (
	"fmt"
	"go/token"
	"go/types"
	"os"
	"runtime"
	"slices"
	"strings"

	"gosym/smt"

	"golang.org/x/tools/go/ssa"
)

type continuation int

const (
	kNext continuation = iota
	kReturn
	kJump
)

type methodSet map[string]*ssa.Function

type fnInfo struct {
	name string
	ext  externalFn
	stub *ssa.Function
	noop bool
	summ bool
}

// interpreter: one per worker; re-used across paths.
type interpreter struct {
	prog               *ssa.Program
	globals            map[*ssa.Global]*value // per-path globals (module packages)
	persistent         map[*ssa.Global]*value // globals of non-module packages, kept across paths
	inited             map[*ssa.Package]bool
	persistentInited   map[*ssa.Package]bool
	runtimeErrorString types.Type
	sizes              types.Sizes
	tb                 *smt.Table
	solver             *smt.Solver
	cfg                *Config
	sh                 *Shared
	path               *pathState
	res                *pathResult
	fninfo             map[*ssa.Function]*fnInfo
	steps              int64
	reverseMaps        bool
	initDepth          int
	tracing            bool
	panicSite          string
	panicSiteSet       bool
	callDepth          int
	fresh              int
	goInlined          bool
	pendingGo          []func()
	pools              map[*value][]value
	sh2                *worklist
	harness            string
	mode               InputMode
	inputFn            func(name string, kind string, ranged bool, lo, hi uint64) uint64
	nameCount          map[string]int
	errorStringPtr     types.Type
	clock              int64
	summaries          map[*ssa.Function]*summary
	merges             int
	summBuilding       *ssa.Function
	curFr              *frame
	fs                 *fsModel
	hashes             []hashRec
	builtSeen          map[*ssa.Package]bool
}

type deferred struct {
	fn    value
	args  []value
	instr *ssa.Defer
	tail  *deferred
}

type frame struct {
	i                *interpreter
	caller           *frame
	fn               *ssa.Function
	block, prevBlock *ssa.BasicBlock
	env              map[ssa.Value]value // dynamic values of SSA variables
	locals           []value
	defers           *deferred
	result           value
	panicking        bool
	panic            interface{}
	phitemps         []value // temporaries for parallel phi assignment
	cur              ssa.Instruction
	phisDone         bool
}

func (fr *frame) get(key ssa.Value) value {
	switch key := key.(type) {
	case nil:
		return nil
	case *ssa.Function, *ssa.Builtin:
		return key
	case *ssa.Const:
		return constValue(key)
	case *ssa.Global:
		return fr.i.globalAddr(key)
	}
	if r, ok := fr.env[key]; ok {
		return r
	}
	panic(engineBug(fmt.Sprintf("get: no value for %T: %v", key, key.Name())))
}

// isAbort reports whether p is an engine-level abort that target code must not intercept.
func isAbort(p interface{}) bool {
	switch p.(type) {
	case unsupported, engineBug, pathAbort, budgetExceeded, crashPanic, *runtime.TypeAssertionError:
		return true
	}
	return false
}

// runDefer runs a deferred call d.
// It always returns normally, but may set or clear fr.panic.
func (fr *frame) runDefer(d *deferred) {
	var ok bool
	defer func() {
		if !ok {
			// Deferred call created a new state of panic.
			p := recover()
			if isAbort(p) {
				panic(p)
			}
			fr.panicking = true
			fr.panic = p
		}
	}()
	call(fr.i, fr, d.instr.Pos(), d.fn, d.args)
	ok = true
}

func (fr *frame) runDefers() {
	for d := fr.defers; d != nil; d = d.tail {
		fr.runDefer(d)
	}
	fr.defers = nil
	if fr.panicking {
		panic(fr.panic) // new panic, or still panicking
	}
}

func lookupMethod(i *interpreter, typ types.Type, meth *types.Func) *ssa.Function {
	return i.prog.LookupMethod(typ, meth.Pkg(), meth.Name())
}

func (fr *frame) pos() string {
	if fr.cur == nil {
		return fr.fn.String()
	}
	p := fr.i.prog.Fset.Position(fr.cur.Pos())
	if !p.IsValid() {
		// search backwards for a positioned instruction in block
		return fr.fn.String()
	}
	return fmt.Sprintf("%s (%s:%d)", fr.fn.String(), shortFile(p.Filename), p.Line)
}

func shortFile(f string) string {
	if k := strings.Index(f, "/repo/"); k >= 0 {
		return f[k+6:]
	}
	if k := strings.LastIndex(f, "/src/"); k >= 0 {
		return f[k+5:]
	}
	return f
}

// concIndex makes an index value concrete, forking over feasible values.
// It first forks the out-of-range panic path.
func (i *interpreter) concIndex(v value, n int, what string) int64 {
	s, ok := v.(sym)
	if !ok {
		return asInt64(v)
	}
	if !i.decide(i.inRange(s, n)) {
		panic(rtError(fmt.Sprintf("%s out of range [symbolic] with length %d", what, n)))
	}
	return int64(i.pickValue(s.t))
}

// inRange is the condition 0 <= s < n for an index of any integer kind.
func (i *interpreter) inRange(s sym, n int) *smt.Term {
	w := kindWidth(s.k)
	if w < 63 && uint64(n) >= uint64(1)<<uint(w) {
		return i.tb.True() // every value of this width is a valid index
	}
	return i.tb.App("bvult", s.t, i.tb.BVConst(uint64(n), w))
}

// concInt makes an integer concrete by forking over its feasible values.
func (i *interpreter) concInt(v value) int64 {
	s, ok := v.(sym)
	if !ok {
		return asInt64(v)
	}
	u := i.pickValue(s.t)
	w := kindWidth(s.k)
	if kindSigned(s.k) && w < 64 {
		sh := uint(64 - w)
		return int64(u<<sh) >> sh
	}
	return int64(u)
}

// symElemRef is the address of base[idx] with symbolic idx, produced only when
// every use of the address is a scalar load or store.
type symElemRef struct {
	base []value
	idx  *smt.Term
}

func onlyLoadsStores(instr *ssa.IndexAddr) bool {
	refs := instr.Referrers()
	if refs == nil {
		return false
	}
	for _, r := range *refs {
		switch r := r.(type) {
		case *ssa.UnOp:
			if r.Op != token.MUL {
				return false
			}
		case *ssa.Store:
			if r.Addr != instr {
				return false
			}
		case *ssa.DebugRef:
		default:
			return false
		}
	}
	return true
}

func isScalarType(t types.Type) bool {
	if b, ok := t.Underlying().(*types.Basic); ok {
		return b.Info()&(types.IsInteger|types.IsBoolean|types.IsFloat) != 0
	}
	return false
}

func (i *interpreter) loadSymElem(r symElemRef) value {
	// idx already constrained in range
	w := r.idx.S.W
	res := r.base[len(r.base)-1]
	for k := len(r.base) - 2; k >= 0; k-- {
		c := i.tb.Eq(r.idx, i.tb.BVConst(uint64(k), w))
		res = i.iteVal(c, r.base[k], res)
	}
	return res
}

func (i *interpreter) storeSymElem(r symElemRef, v value) {
	w := r.idx.S.W
	for k := range r.base {
		c := i.tb.Eq(r.idx, i.tb.BVConst(uint64(k), w))
		r.base[k] = i.iteVal(c, v, r.base[k])
	}
}

// visitInstr interprets a single ssa.Instruction within the activation
// record frame.
func visitInstr(fr *frame, instr ssa.Instruction) continuation {
	i := fr.i
	switch instr := instr.(type) {
	case *ssa.DebugRef:
		// no-op

	case *ssa.UnOp:
		x := fr.get(instr.X)
		if instr.Op == token.MUL {
			if r, ok := x.(symElemRef); ok {
				fr.env[instr] = i.loadSymElem(r)
				break
			}
		}
		fr.env[instr] = unop(i, instr, x)

	case *ssa.BinOp:
		fr.env[instr] = binop(i, instr.Op, instr.X.Type(), fr.get(instr.X), fr.get(instr.Y))

	case *ssa.Call:
		fn, args := prepareCall(fr, &instr.Call)
		fr.env[instr] = call(fr.i, fr, instr.Pos(), fn, args)

	case *ssa.ChangeInterface:
		fr.env[instr] = fr.get(instr.X)

	case *ssa.ChangeType:
		fr.env[instr] = fr.get(instr.X) // (can't fail)

	case *ssa.Convert:
		fr.env[instr] = conv(i, instr.Type(), instr.X.Type(), fr.get(instr.X))

	case *ssa.MultiConvert:
		fr.env[instr] = conv(i, instr.Type(), instr.X.Type(), fr.get(instr.X))

	case *ssa.SliceToArrayPointer:
		fr.env[instr] = sliceToArrayPointer(instr.Type(), instr.X.Type(), fr.get(instr.X))

	case *ssa.MakeInterface:
		fr.env[instr] = iface{t: instr.X.Type(), v: fr.get(instr.X)}

	case *ssa.Extract:
		t := fr.get(instr.Tuple)
		if p, ok := t.(poison); ok {
			fr.env[instr] = p
		} else {
			fr.env[instr] = t.(tuple)[instr.Index]
		}

	case *ssa.Slice:
		x := fr.get(instr.X)
		lo, hi, max := fr.get(instr.Low), fr.get(instr.High), fr.get(instr.Max)
		if isSym(lo) || isSym(hi) || isSym(max) {
			// fork the out-of-range panic, then concretise
			lo, hi, max = i.concSliceBounds(x, lo, hi, max)
		}
		fr.env[instr] = slice(x, lo, hi, max)

	case *ssa.Return:
		switch len(instr.Results) {
		case 0:
		case 1:
			fr.result = fr.get(instr.Results[0])
		default:
			var res []value
			for _, r := range instr.Results {
				res = append(res, fr.get(r))
			}
			fr.result = tuple(res)
		}
		fr.block = nil
		return kReturn

	case *ssa.RunDefers:
		fr.runDefers()

	case *ssa.Panic:
		panic(targetPanic{fr.get(instr.X)})

	case *ssa.Send:
		ch := fr.get(instr.Chan).(chan value)
		select {
		case ch <- fr.get(instr.X):
		default:
			panic(unsupported("blocking channel send"))
		}

	case *ssa.Store:
		addr := fr.get(instr.Addr)
		if r, ok := addr.(symElemRef); ok {
			i.storeSymElem(r, fr.get(instr.Val))
			break
		}
		store(mustDeref(instr.Addr.Type()), addr.(*value), fr.get(instr.Val))

	case *ssa.If:
		succ := 1
		c := fr.get(instr.Cond)
		switch c := c.(type) {
		case bool:
			if c {
				succ = 0
			}
		case sym:
			if fr.tryMerge(instr, c.t) {
				return kJump
			}
			if i.decide(c.t) {
				succ = 0
			}
		case poison:
			panic(unsupported("branch on poisoned value: " + c.why))
		default:
			panic(engineBug(fmt.Sprintf("If on %T", c)))
		}
		fr.prevBlock, fr.block = fr.block, fr.block.Succs[succ]
		return kJump

	case *ssa.Jump:
		fr.prevBlock, fr.block = fr.block, fr.block.Succs[0]
		return kJump

	case *ssa.Defer:
		fn, args := prepareCall(fr, &instr.Call)
		defers := &fr.defers
		if into := fr.get(instr.DeferStack); into != nil {
			defers = into.(**deferred)
		}
		*defers = &deferred{
			fn:    fn,
			args:  args,
			instr: instr,
			tail:  *defers,
		}

	case *ssa.Go:
		// goroutines are executed inline at the spawn point (sequentialisation;
		// recorded as an assumption of the run).
		fn, args := prepareCall(fr, &instr.Call)
		i.goInlined = true
		if i.cfg.GoDeferred {
			// deferred sequentialisation: the goroutine runs to completion at the next
			// WaitGroup.Wait (or at the end of the entry); channels are buffered.
			pos := instr.Pos()
			i.pendingGo = append(i.pendingGo, func() { call(i, nil, pos, fn, args) })
			break
		}
		call(fr.i, nil, instr.Pos(), fn, args)

	case *ssa.MakeChan:
		sz := i.concInt(fr.get(instr.Size))
		if i.cfg.GoDeferred && sz < 4096 {
			sz = 4096
		}
		fr.env[instr] = make(chan value, sz)

	case *ssa.Alloc:
		var addr *value
		if instr.Heap {
			// new
			addr = new(value)
			fr.env[instr] = addr
		} else {
			// local
			addr = fr.env[instr].(*value)
		}
		*addr = zero(mustDeref(instr.Type()))

	case *ssa.MakeSlice:
		c := i.concInt(fr.get(instr.Cap))
		l := i.concInt(fr.get(instr.Len))
		if l < 0 || c < l {
			panic(rtError("makeslice: len out of range"))
		}
		if c > 1<<24 {
			panic(unsupported(fmt.Sprintf("allocation of %d elements exceeds the engine's bound", c)))
		}
		slice := make([]value, c)
		tElt := instr.Type().Underlying().(*types.Slice).Elem()
		for i := range slice {
			slice[i] = zero(tElt)
		}
		fr.env[instr] = slice[:l]

	case *ssa.MakeMap:
		fr.env[instr] = makeMap(instr.Type().Underlying().(*types.Map).Key(), 0)

	case *ssa.Range:
		fr.env[instr] = rangeIter(i, fr.get(instr.X), instr.X.Type())

	case *ssa.Next:
		fr.env[instr] = fr.get(instr.Iter).(iter).next()

	case *ssa.FieldAddr:
		p := fr.get(instr.X).(*value)
		if p == nil {
			panic(rtError("invalid memory address or nil pointer dereference"))
		}
		fr.env[instr] = &(*p).(structure)[instr.Field]

	case *ssa.Field:
		fr.env[instr] = fr.get(instr.X).(structure)[instr.Field]

	case *ssa.IndexAddr:
		x := fr.get(instr.X)
		idx := fr.get(instr.Index)
		var base []value
		switch x := x.(type) {
		case []value:
			base = x
		case *value: // *array
			if x == nil {
				panic(rtError("invalid memory address or nil pointer dereference"))
			}
			base = (*x).(array)
		default:
			panic(engineBug(fmt.Sprintf("unexpected x type in IndexAddr: %T", x)))
		}
		if s, ok := idx.(sym); ok {
			eltT := mustDeref(instr.Type())
			if len(base) > 0 && len(base) <= 512 && isScalarType(eltT) && onlyLoadsStores(instr) {
				if !i.decide(i.inRange(s, len(base))) {
					panic(rtError(fmt.Sprintf("index out of range [symbolic] with length %d", len(base))))
				}
				fr.env[instr] = symElemRef{base: base, idx: s.t}
				break
			}
			k := i.concIndex(idx, len(base), "index")
			fr.env[instr] = &base[k]
			break
		}
		k := asInt64(idx)
		if k < 0 || k >= int64(len(base)) {
			panic(rtError(fmt.Sprintf("index out of range [%d] with length %d", k, len(base))))
		}
		fr.env[instr] = &base[k]

	case *ssa.Index:
		x := fr.get(instr.X)
		idx := fr.get(instr.Index)
		var base []value
		switch x := x.(type) {
		case array:
			base = x
		case string:
			if !isSym(idx) {
				k := asInt64(idx)
				if k < 0 || k >= int64(len(x)) {
					panic(rtError(fmt.Sprintf("index out of range [%d] with length %d", k, len(x))))
				}
				fr.env[instr] = x[k]
				return kNext
			}
			base = strBytes(x)
		case symString:
			base = x.b
		default:
			panic(engineBug(fmt.Sprintf("unexpected x type in Index: %T", x)))
		}
		if s, ok := idx.(sym); ok {
			if len(base) > 0 && len(base) <= 512 && kindOf(base[0]) != types.Invalid {
				if !i.decide(i.inRange(s, len(base))) {
					panic(rtError(fmt.Sprintf("index out of range [symbolic] with length %d", len(base))))
				}
				fr.env[instr] = i.loadSymElem(symElemRef{base: base, idx: s.t})
				break
			}
			k := i.concIndex(idx, len(base), "index")
			fr.env[instr] = base[k]
			break
		}
		k := asInt64(idx)
		if k < 0 || k >= int64(len(base)) {
			panic(rtError(fmt.Sprintf("index out of range [%d] with length %d", k, len(base))))
		}
		fr.env[instr] = base[k]

	case *ssa.Lookup:
		fr.env[instr] = lookup(i, instr, fr.get(instr.X), fr.get(instr.Index))

	case *ssa.MapUpdate:
		m := fr.get(instr.Map)
		key := fr.get(instr.Key)
		v := fr.get(instr.Value)
		switch m := m.(type) {
		case *smap:
			m.insert(i, key, copyVal(v))
		default:
			panic(engineBug(fmt.Sprintf("illegal map type: %T", m)))
		}

	case *ssa.TypeAssert:
		x := fr.get(instr.X)
		if p, ok := x.(poison); ok {
			fr.env[instr] = p
			break
		}
		fr.env[instr] = typeAssert(fr.i, instr, x.(iface))

	case *ssa.MakeClosure:
		var bindings []value
		for _, binding := range instr.Bindings {
			bindings = append(bindings, fr.get(binding))
		}
		fr.env[instr] = &closure{instr.Fn.(*ssa.Function), bindings}

	case *ssa.Phi:
		panic(engineBug("unreachable: phi")) // phis are processed at block entry

	case *ssa.Select:
		fr.env[instr] = i.doSelect(fr, instr)

	default:
		panic(unsupported(fmt.Sprintf("instruction %T in %s", instr, fr.fn.String())))
	}

	return kNext
}

// doSelect supports only the non-blocking / ready cases deterministically.
// runPendingGo runs the goroutines queued under deferred sequentialisation, in spawn order.
func (i *interpreter) runPendingGo() {
	for len(i.pendingGo) > 0 {
		g := i.pendingGo[0]
		i.pendingGo = i.pendingGo[1:]
		g()
	}
}

func (i *interpreter) doSelect(fr *frame, instr *ssa.Select) value {
	chosen := -1
	var recv value
	recvOk := false
	for k, st := range instr.States {
		ch := fr.get(st.Chan).(chan value)
		if ch == nil {
			continue
		}
		if st.Dir == types.RecvOnly {
			select {
			case v, ok := <-ch:
				chosen, recv, recvOk = k, v, ok
			default:
			}
		} else {
			select {
			case ch <- fr.get(st.Send):
				chosen = k
			default:
			}
		}
		if chosen >= 0 {
			break
		}
	}
	if chosen < 0 && instr.Blocking {
		panic(unsupported("blocking select"))
	}
	r := tuple{chosen, recvOk}
	for k, st := range instr.States {
		if st.Dir == types.RecvOnly {
			var v value
			if k == chosen && recvOk {
				v = recv
			} else {
				v = zero(st.Chan.Type().Underlying().(*types.Chan).Elem())
			}
			r = append(r, v)
		}
	}
	return r
}

func (i *interpreter) concSliceBounds(x, lo, hi, max value) (value, value, value) {
	var Len, Cap int
	switch x := x.(type) {
	case string:
		Len = len(x)
		Cap = Len
	case symString:
		Len = len(x.b)
		Cap = Len
	case []value:
		Len = len(x)
		Cap = cap(x)
	case *value:
		a := (*x).(array)
		Len, Cap = len(a), len(a)
	}
	tb := i.tb
	asT := func(v value, def int) *smt.Term {
		if v == nil {
			return tb.BVConst(uint64(def), 64)
		}
		t := i.term(v)
		if t.S.W < 64 {
			if kindSigned(kindOf(v)) {
				t = tb.SignExt(64-t.S.W, t)
			} else {
				t = tb.ZeroExt(64-t.S.W, t)
			}
		}
		return t
	}
	l, h := asT(lo, 0), asT(hi, Len)
	m := asT(max, Cap)
	// 0 <= l <= h <= m <= Cap   (h <= Cap for 2-index slices)
	ok := tb.And(tb.App("bvsle", tb.BVConst(0, 64), l), tb.App("bvsle", l, h), tb.App("bvsle", h, m), tb.App("bvsle", m, tb.BVConst(uint64(Cap), 64)))
	if !i.decide(ok) {
		panic(rtError("slice bounds out of range [symbolic]"))
	}
	conc := func(v value) value {
		if s, ok := v.(sym); ok {
			return int(i.pickValue(s.t))
		}
		return v
	}
	return conc(lo), conc(hi), conc(max)
}

// prepareCall determines the function value and argument values for a
// function call in a Call, Go or Defer instruction, performing
// interface method lookup if needed.
func prepareCall(fr *frame, call *ssa.CallCommon) (fn value, args []value) {
	v := fr.get(call.Value)
	if call.Method == nil {
		// Function call.
		fn = v
	} else {
		// Interface method invocation.
		if p, ok := v.(poison); ok {
			return p, nil
		}
		recv := v.(iface)
		if recv.t == nil {
			panic(rtError("invalid memory address or nil pointer dereference (method invoked on nil interface)"))
		}
		if f := lookupMethod(fr.i, recv.t, call.Method); f == nil {
			// Unreachable in well-typed programs.
			panic(engineBug(fmt.Sprintf("method set for dynamic type %v does not contain %s", recv.t, call.Method)))
		} else {
			fn = f
		}
		args = append(args, recv.v)
	}
	for _, arg := range call.Args {
		args = append(args, fr.get(arg))
	}
	return
}

// call interprets a call to a function (function, builtin or closure)
// fn with arguments args, returning its result.
func call(i *interpreter, caller *frame, callpos token.Pos, fn value, args []value) value {
	switch fn := fn.(type) {
	case *ssa.Function:
		if fn == nil {
			panic(rtError("invalid memory address or nil pointer dereference (call of nil func)"))
		}
		return callSSA(i, caller, callpos, fn, args, nil)
	case *closure:
		return callSSA(i, caller, callpos, fn.Fn, args, fn.Env)
	case *ssa.Builtin:
		return callBuiltin(caller, callpos, fn, args)
	case poison:
		return fn
	}
	panic(engineBug(fmt.Sprintf("cannot call %T", fn)))
}

func (i *interpreter) info(fn *ssa.Function) *fnInfo {
	if fi, ok := i.fninfo[fn]; ok {
		return fi
	}
	fi := &fnInfo{name: fn.String()}
	if fn.Parent() == nil {
		key := fi.name
		if o := fn.Origin(); o != nil {
			// generic instance: key by origin name as well
			if _, ok := externals[key]; !ok {
				key = o.String()
			}
		}
		if st, ok := i.sh.Stubs[key]; ok && (i.mode == Symbolic || i.sh.StubAlways[key]) {
			fi.stub = st
		} else if ext := externals[key]; ext != nil {
			fi.ext = ext
		} else if isNoopPkg(fn) {
			fi.noop = true
		}
		if i.sh.Summarize[key] {
			fi.summ = true
		}
	}
	i.fninfo[fn] = fi
	return fi
}

func isNoopPkg(fn *ssa.Function) bool {
	p := fn.Pkg
	if p == nil && fn.Origin() != nil {
		p = fn.Origin().Pkg
	}
	if p == nil {
		if recv := fn.Signature.Recv(); recv != nil {
			s := recv.Type().String()
			return strings.Contains(s, "github.com/sirupsen/logrus.")
		}
		return false
	}
	path := p.Pkg.Path()
	return path == "github.com/sirupsen/logrus" || path == "log"
}

// callSSA interprets a call to function fn with arguments args,
// and lexical environment env, returning its result.
func callSSA(i *interpreter, caller *frame, callpos token.Pos, fn *ssa.Function, args []value, env []value) value {
	fi := i.info(fn)
	if i.tracing {
		fmt.Fprintf(os.Stderr, "%*sEntering %s\n", i.callDepth, "", fi.name)
	}
	fr := &frame{
		i:      i,
		caller: caller, // for panic/recover
		fn:     fn,
	}
	if i.initDepth > 0 && caller != nil && fn.Name() == "init" && fn.Pkg != nil && fn.Pkg.Func("init") == fn {
		return nil // imported package initialisers are run lazily on their own
	}
	if fi.stub != nil && (caller == nil || caller.fn != fi.stub) {
		// harness-level contract stub (never re-entered from itself, so a stub
		// may delegate to the real function)
		i.res.noteStub(fi.name)
		return callSSA(i, caller, callpos, fi.stub, args, nil)
	}
	if fi.ext != nil {
		return fi.ext(fr, args)
	}
	if fi.noop {
		return zero(fn.Signature.Results())
	}
	if fi.summ && i.path != nil && i.summBuilding != fn {
		if r, ok := i.callSummary(fn, args); ok {
			return r
		}
	}
	// never look at a function of a package another worker may still be building
	// (ssa.Package.Build rewrites instruction lists in place)
	{
		pkg := fn.Pkg
		if pkg == nil {
			if o := fn.Origin(); o != nil {
				pkg = o.Pkg
			}
		}
		if pkg == nil && fn.Parent() != nil {
			pkg = fn.Parent().Pkg
		}
		if pkg != nil && !i.builtSeen[pkg] {
			i.sh.build(pkg)
			i.builtSeen[pkg] = true
		}
	}
	if fn.Blocks == nil {
		if fn.Blocks == nil {
			if i.initDepth > 0 {
				return poison{"no code for " + fi.name}
			}
			panic(unsupported("no code for function: " + fi.name))
		}
	}

	// generic function body?
	if fn.TypeParams().Len() > 0 && len(fn.TypeArgs()) == 0 {
		panic(engineBug("interp requires ssa.BuilderMode to include InstantiateGenerics to execute generics"))
	}
	i.callDepth++
	if i.callDepth > i.cfg.MaxCallDepth {
		panic(budgetExceeded{"call depth " + fi.name})
	}
	defer func() { i.callDepth-- }()
	i.res.noteFunc(fn)

	fr.env = make(map[ssa.Value]value)
	fr.block = fn.Blocks[0]
	fr.locals = make([]value, len(fn.Locals))
	for i, l := range fn.Locals {
		fr.locals[i] = zero(mustDeref(l.Type()))
		fr.env[l] = &fr.locals[i]
	}
	for i, p := range fn.Params {
		fr.env[p] = args[i]
	}
	for i, fv := range fn.FreeVars {
		fr.env[fv] = env[i]
	}
	for fr.block != nil {
		runFrame(fr)
	}
	return fr.result
}

// runFrame executes SSA instructions starting at fr.block and
// continuing until a return, a panic, or a recovered panic.
func runFrame(fr *frame) {
	defer func() {
		if fr.block == nil {
			return // normal return
		}
		p := recover()
		if isAbort(p) {
			if ta, ok := p.(*runtime.TypeAssertionError); ok {
				buf := make([]byte, 4096)
				buf = buf[:runtime.Stack(buf, false)]
				p = engineBug("type assertion in engine: " + ta.Error() + " at " + fr.pos() + "\n" + string(buf))
				if os.Getenv("VERIF_STACK") != "" {
					for f := fr; f != nil; f = f.caller {
						fmt.Fprintf(os.Stderr, "  stack: %s\n", f.pos())
					}
				}
			}
			panic(p)
		}
		if !fr.i.panicSiteSet {
			fr.i.panicSiteSet = true
			fr.i.panicSite = fr.pos()
			if os.Getenv("VERIF_STACK") != "" {
				for f := fr; f != nil; f = f.caller {
					fmt.Fprintf(os.Stderr, "  stack: %s\n", f.pos())
				}
			}
		}
		fr.panicking = true
		fr.panic = p
		fr.runDefers()
		fr.block = fr.fn.Recover
	}()

	i := fr.i
	for {
		nonPhis := executePhis(fr)
		for _, instr := range nonPhis {
			i.steps++
			if i.steps > i.cfg.MaxSteps {
				panic(budgetExceeded{"instruction budget at " + fr.pos()})
			}
			fr.cur = instr
			i.curFr = fr
			if i.tracing {
				if v, ok := instr.(ssa.Value); ok {
					fmt.Fprintln(os.Stderr, "\t", v.Name(), "=", instr)
				} else {
					fmt.Fprintln(os.Stderr, "\t", instr)
				}
			}
			if visitInstr(fr, instr) == kReturn {
				return
			}
		}
	}
}

// executePhis executes the phi-nodes at the start of the current
// block and returns the non-phi instructions.
func executePhis(fr *frame) []ssa.Instruction {
	firstNonPhi := -1
	for i, instr := range fr.block.Instrs {
		if _, ok := instr.(*ssa.Phi); !ok {
			firstNonPhi = i
			break
		}
	}
	nonPhis := fr.block.Instrs[firstNonPhi:]
	if fr.phisDone {
		fr.phisDone = false
		return nonPhis
	}
	if firstNonPhi > 0 {
		phis := fr.block.Instrs[:firstNonPhi]
		predIndex := slices.Index(fr.block.Preds, fr.prevBlock)
		fr.phitemps = fr.phitemps[:0]
		for _, phi := range phis {
			phi := phi.(*ssa.Phi)
			fr.phitemps = append(fr.phitemps, fr.get(phi.Edges[predIndex]))
		}
		for i, phi := range phis {
			fr.env[phi.(*ssa.Phi)] = fr.phitemps[i]
		}
	}
	return nonPhis
}

// doRecover implements the recover() built-in.
func doRecover(caller *frame) value {
	if caller != nil && !caller.panicking &&
		caller.caller != nil && caller.caller.panicking {
		caller.caller.panicking = false
		p := caller.caller.panic
		caller.caller.panic = nil
		caller.i.panicSiteSet = false

		switch p := p.(type) {
		case targetPanic:
			// The target program explicitly called panic().
			return p.v
		case runtime.Error:
			// The interpreter encountered a runtime error.
			return iface{caller.i.runtimeErrorString, p.Error()}
		case string:
			// The interpreter explicitly called panic().
			return iface{caller.i.runtimeErrorString, p}
		default:
			panic(engineBug(fmt.Sprintf("unexpected panic type %T in target call to recover(): %v", p, p)))
		}
	}
	return iface{}
}

// ---------------------------------------------------------------- globals and package init

func (i *interpreter) isModulePkg(p *ssa.Package) bool {
	return p != nil && strings.HasPrefix(p.Pkg.Path(), i.sh.ModulePath)
}

func (i *interpreter) globalAddr(g *ssa.Global) *value {
	if a, ok := i.globals[g]; ok {
		return a
	}
	if a, ok := i.persistent[g]; ok {
		return a
	}
	pkg := g.Pkg
	mod := i.isModulePkg(pkg)
	store := i.persistent
	inited := i.persistentInited
	if mod {
		store = i.globals
		inited = i.inited
	}
	// allocate all globals of the package
	for _, m := range pkg.Members {
		if v, ok := m.(*ssa.Global); ok {
			if _, ok := store[v]; !ok {
				cell := zero(mustDeref(v.Type()))
				store[v] = &cell
			}
		}
	}
	if !inited[pkg] {
		inited[pkg] = true
		i.runInit(pkg)
	}
	return store[g]
}

// runInit executes the package initialiser in tolerant mode: imported packages'
// init calls are skipped (they are initialised lazily themselves), calls that
// cannot be modelled yield poison, and an abort stops only this initialiser.
func (i *interpreter) runInit(pkg *ssa.Package) {
	i.sh.build(pkg)
	initFn := pkg.Func("init")
	if initFn == nil || initFn.Blocks == nil {
		return
	}
	savedPath := i.path
	savedSteps := i.steps
	i.initDepth++
	// init runs outside the symbolic path: no decisions allowed
	i.path = nil
	defer func() {
		i.initDepth--
		i.path = savedPath
		i.steps = savedSteps
		if p := recover(); p != nil {
			i.panicSiteSet = false
			if i.cfg.Debug {
				fmt.Fprintf(os.Stderr, "init of %s stopped: %v\n", pkg.Pkg.Path(), p)
			}
			i.res.note("init of " + pkg.Pkg.Path() + " incomplete: " + fmt.Sprint(p))
		}
	}()
	callSSA(i, nil, token.NoPos, initFn, nil, nil)
}

// targetPanicString renders a panic value.
func panicString(p interface{}) string {
	switch p := p.(type) {
	case targetPanic:
		if itf, ok := p.v.(iface); ok {
			if s, ok := itf.v.(string); ok {
				return s
			}
			if itf.t != nil {
				return "(" + itf.t.String() + ") " + toString(itf.v)
			}
		}
		return toString(p.v)
	case error:
		return p.Error()
	case string:
		return p
	}
	return fmt.Sprint(p)
}
