package interp

// Contract models of checksum/hash functions over symbolic data.
//
// hash/crc32 (IEEE): an uninterpreted value per distinct data vector, constrained
// by the textbook guarantee of a degree-32 CRC: two equal-length messages that
// differ only inside a window of at most 4 consecutive bytes (an error burst of
// <= 32 bits) have different checksums.  Concrete data is checksummed for real.
//
// xxhash.Sum64/Sum64String: an uninterpreted injective function (hash
// collisions are outside every claim).

import (
	"fmt"
	"go/types"
	"hash/crc32"

	"gosym/smt"

	"github.com/cespare/xxhash"
)

type hashRec struct {
	v    *smt.Term
	data []value
	crc  bool
}

func allConcreteBytes(data []value) ([]byte, bool) {
	out := make([]byte, len(data))
	for k, b := range data {
		c, ok := b.(uint8)
		if !ok {
			return nil, false
		}
		out[k] = c
	}
	return out, true
}

func sameData(a, b []value) bool {
	if len(a) != len(b) {
		return false
	}
	for k := range a {
		switch x := a[k].(type) {
		case uint8:
			y, ok := b[k].(uint8)
			if !ok || x != y {
				return false
			}
		case sym:
			y, ok := b[k].(sym)
			if !ok || x.t != y.t {
				return false
			}
		default:
			return false
		}
	}
	return true
}

func (i *interpreter) hashModel(data []value, isCRC bool, width int) *smt.Term {
	tb := i.tb
	var v *smt.Term
	if bs, ok := allConcreteBytes(data); ok {
		if isCRC {
			v = tb.BVConst(uint64(crc32.ChecksumIEEE(bs)), 32)
		} else {
			v = tb.BVConst(xxhash.Sum64(bs), 64)
		}
	}
	for _, r := range i.hashes {
		if r.crc == isCRC && sameData(r.data, data) {
			return r.v
		}
	}
	if v == nil {
		i.fresh++
		name := "$xxh"
		if isCRC {
			name = "$crc"
		}
		v = tb.Var(fmt.Sprintf("%s%d_%d", name, len(i.hashes), len(data)), smt.BVSort(width))
	}
	cp := append([]value(nil), data...)
	// axioms against every earlier value of the same function
	if i.path != nil {
		for _, r := range i.hashes {
			if r.crc != isCRC {
				continue
			}
			if v.IsConst() && r.v.IsConst() {
				continue
			}
			same := tb.Eq(v, r.v)
			if len(r.data) != len(data) {
				// messages of different length: collisions are outside every claim
				// (for CRC-32 a re-framed stream collides with probability 2^-32)
				i.path.pc = append(i.path.pc, tb.Not(same))
				continue
			}
			diffs := make([]*smt.Term, len(data))
			var eqs []*smt.Term
			for k := range data {
				e := tb.Eq(i.term(data[k]), i.term(r.data[k]))
				eqs = append(eqs, e)
				diffs[k] = tb.Not(e)
			}
			allEq := tb.And(eqs...)
			if !isCRC {
				i.path.pc = append(i.path.pc, tb.Eq(same, allEq))
				continue
			}
			// CRC: equal data => equal crc; equal crc => equal data or a difference
			// spanning more than 4 bytes
			var wide []*smt.Term
			for a := 0; a < len(data); a++ {
				if diffs[a].IsConst() && diffs[a].Val == 0 {
					continue
				}
				for b := a + 4; b < len(data); b++ {
					if diffs[b].IsConst() && diffs[b].Val == 0 {
						continue
					}
					wide = append(wide, tb.And(diffs[a], diffs[b]))
				}
			}
			i.path.pc = append(i.path.pc, tb.Or(tb.Not(allEq), same))
			i.path.pc = append(i.path.pc, tb.Or(tb.Not(same), allEq, tb.Or(wide...)))
		}
	}
	i.hashes = append(i.hashes, hashRec{v: v, data: cp, crc: isCRC})
	return v
}

// crcDataOf finds the data vector whose model checksum is the term t.
func (i *interpreter) crcDataOf(t *smt.Term) ([]value, bool) {
	for _, r := range i.hashes {
		if r.crc && r.v == t {
			return r.data, true
		}
	}
	return nil, false
}

func init() {
	for k, v := range map[string]externalFn{
		"hash/crc32.ChecksumIEEE": func(fr *frame, a []value) value {
			return fr.i.mkSym(fr.i.hashModel(seqBytes(a[0]), true, 32), types.Uint32)
		},
		"hash/crc32.Checksum": func(fr *frame, a []value) value {
			// only the IEEE table is used by the code under test
			return fr.i.mkSym(fr.i.hashModel(seqBytes(a[0]), true, 32), types.Uint32)
		},
		"hash/crc32.Update": func(fr *frame, a []value) value {
			i := fr.i
			p := seqBytes(a[2])
			switch c := a[0].(type) {
			case uint32:
				if c == 0 {
					return i.mkSym(i.hashModel(p, true, 32), types.Uint32)
				}
				if bs, ok := allConcreteBytes(p); ok {
					return crc32.Update(c, crc32.IEEETable, bs)
				}
				// a concrete running checksum of concrete data seen earlier
				for _, r := range i.hashes {
					if r.crc && r.v.IsConst() && uint32(r.v.Val) == c {
						return i.mkSym(i.hashModel(append(append([]value(nil), r.data...), p...), true, 32), types.Uint32)
					}
				}
				panic(unsupported("crc32.Update: concrete running checksum with symbolic data"))
			case sym:
				if d, ok := i.crcDataOf(c.t); ok {
					return i.mkSym(i.hashModel(append(append([]value(nil), d...), p...), true, 32), types.Uint32)
				}
				panic(unsupported("crc32.Update: running checksum of unknown provenance"))
			}
			panic(engineBug("crc32.Update"))
		},
		"github.com/cespare/xxhash.Sum64": func(fr *frame, a []value) value {
			return fr.i.mkSym(fr.i.hashModel(seqBytes(a[0]), false, 64), types.Uint64)
		},
		"github.com/cespare/xxhash.Sum64String": func(fr *frame, a []value) value {
			return fr.i.mkSym(fr.i.hashModel(seqBytes(a[0]), false, 64), types.Uint64)
		},
	} {
		externals[k] = v
	}
}
